//! Independent reference implementation of the CNB layer-environment rules: the spec's on-disk
//! layout (writer and reader), the modification rules, and the implicit layer paths.
//! Written from the specification / property text, not from libcnb's code.

use crate::snap::{Node, Snap, join, p};
use serde::{Deserialize, Serialize};
use std::collections::BTreeMap;

#[derive(Clone, Copy, Debug, PartialEq, Eq, PartialOrd, Ord, Serialize, Deserialize, Hash)]
pub enum Beh {
    Append,
    Default,
    Delim,
    Override,
    Prepend,
}

pub const BEHS: [Beh; 5] = [Beh::Append, Beh::Default, Beh::Delim, Beh::Override, Beh::Prepend];

impl Beh {
    pub fn suffix(self) -> &'static str {
        match self {
            Beh::Append => "append",
            Beh::Default => "default",
            Beh::Delim => "delim",
            Beh::Override => "override",
            Beh::Prepend => "prepend",
        }
    }
    pub fn from_suffix(s: &[u8]) -> Option<Beh> {
        BEHS.iter().copied().find(|b| b.suffix().as_bytes() == s)
    }
}

#[derive(Clone, Debug, PartialEq, Eq, PartialOrd, Ord, Serialize, Deserialize, Hash)]
pub enum ScopeM {
    All,
    Build,
    Launch,
    Process(String),
}

/// name → behaviour → value
#[derive(Clone, Debug, Default, PartialEq, Eq)]
pub struct Delta {
    pub vars: BTreeMap<Vec<u8>, BTreeMap<Beh, Vec<u8>>>,
}

pub type EnvMap = BTreeMap<Vec<u8>, Vec<u8>>;

impl Delta {
    pub fn is_empty(&self) -> bool {
        self.vars.is_empty()
    }

    pub fn insert(&mut self, beh: Beh, name: &[u8], value: &[u8]) {
        self.vars
            .entry(name.to_vec())
            .or_default()
            .insert(beh, value.to_vec());
    }

    /// CNB environment variable modification rules, variable by variable.
    pub fn apply(&self, env: &mut EnvMap) {
        for (name, behs) in &self.vars {
            let delim: &[u8] = behs.get(&Beh::Delim).map_or(&[], Vec::as_slice);
            if let Some(v) = behs.get(&Beh::Append) {
                let mut cur = env.get(name).cloned().unwrap_or_default();
                if !cur.is_empty() {
                    cur.extend_from_slice(delim);
                }
                cur.extend_from_slice(v);
                env.insert(name.clone(), cur);
            }
            if let Some(v) = behs.get(&Beh::Default) {
                if !env.contains_key(name) {
                    env.insert(name.clone(), v.clone());
                }
            }
            if let Some(v) = behs.get(&Beh::Override) {
                env.insert(name.clone(), v.clone());
            }
            if let Some(v) = behs.get(&Beh::Prepend) {
                let cur = env.get(name).cloned().unwrap_or_default();
                let mut new = v.clone();
                if !cur.is_empty() {
                    new.extend_from_slice(delim);
                    new.extend_from_slice(&cur);
                }
                env.insert(name.clone(), new);
            }
        }
    }
}

#[derive(Clone, Debug, Default, PartialEq, Eq)]
pub struct EnvModel {
    pub all: Delta,
    pub build: Delta,
    pub launch: Delta,
    pub process: BTreeMap<String, Delta>,
    /// implicit layer paths (only ever derived from a directory, never written)
    pub implicit_build: Vec<(Vec<u8>, Vec<u8>)>,
    pub implicit_launch: Vec<(Vec<u8>, Vec<u8>)>,
}

#[derive(Clone, Debug, PartialEq, Eq, Serialize, Deserialize)]
pub struct EnvEntry {
    pub scope: ScopeM,
    pub beh: Beh,
    #[serde(with = "crate::hexbytes")]
    pub name: Vec<u8>,
    #[serde(with = "crate::hexbytes")]
    pub value: Vec<u8>,
}

pub type EnvSpec = Vec<EnvEntry>;

impl EnvModel {
    pub fn from_spec(spec: &[EnvEntry]) -> EnvModel {
        let mut m = EnvModel::default();
        for e in spec {
            m.delta_mut(&e.scope).insert(e.beh, &e.name, &e.value);
        }
        m
    }

    pub fn delta_mut(&mut self, scope: &ScopeM) -> &mut Delta {
        match scope {
            ScopeM::All => &mut self.all,
            ScopeM::Build => &mut self.build,
            ScopeM::Launch => &mut self.launch,
            ScopeM::Process(p) => self.process.entry(p.clone()).or_default(),
        }
    }

    pub fn names(&self) -> Vec<Vec<u8>> {
        let mut v: Vec<Vec<u8>> = Vec::new();
        for d in [&self.all, &self.build, &self.launch]
            .into_iter()
            .chain(self.process.values())
        {
            v.extend(d.vars.keys().cloned());
        }
        for (n, _) in self.implicit_build.iter().chain(&self.implicit_launch) {
            v.push(n.clone());
        }
        v.sort();
        v.dedup();
        v
    }

    /// 'all' first, then the scope-specific delta, then the implicit layer paths (prepends joined
    /// with the path-list separator) for build and launch only.
    pub fn apply(&self, scope: &ScopeM, start: &EnvMap) -> EnvMap {
        let mut env = start.clone();
        self.all.apply(&mut env);
        let implicit: &[(Vec<u8>, Vec<u8>)] = match scope {
            ScopeM::All => &[],
            ScopeM::Build => {
                self.build.apply(&mut env);
                &self.implicit_build
            }
            ScopeM::Launch => {
                self.launch.apply(&mut env);
                &self.implicit_launch
            }
            ScopeM::Process(p) => {
                if let Some(d) = self.process.get(p) {
                    d.apply(&mut env);
                }
                &[]
            }
        };
        for (name, path) in implicit {
            let cur = env.get(name).cloned().unwrap_or_default();
            let mut new = path.clone();
            if !cur.is_empty() {
                new.push(b':');
                new.extend_from_slice(&cur);
            }
            env.insert(name.clone(), new);
        }
        env
    }

    /// The spec's on-disk layout for this environment, as entries relative to the layer dir.
    /// A directory is absent when it would hold nothing.
    pub fn spec_files(&self) -> Snap {
        let mut s = Snap::default();
        let write_delta = |dir: Vec<u8>, d: &Delta, s: &mut Snap| {
            if d.is_empty() {
                return;
            }
            // parents
            let comps: Vec<&[u8]> = dir.split(|c| *c == b'/').collect();
            let mut cur: Vec<u8> = Vec::new();
            for c in comps {
                cur = join(&cur, c);
                s.nodes.entry(cur.clone()).or_insert_with(Node::dir);
            }
            for (name, behs) in &d.vars {
                for (beh, value) in behs {
                    let mut file = name.clone();
                    file.push(b'.');
                    file.extend_from_slice(beh.suffix().as_bytes());
                    s.insert(join(&dir, &file), Node::file(value.clone()));
                }
            }
        };
        write_delta(p("env"), &self.all, &mut s);
        write_delta(p("env.build"), &self.build, &mut s);
        write_delta(p("env.launch"), &self.launch, &mut s);
        for (proc_name, d) in &self.process {
            write_delta(join(b"env.launch", proc_name.as_bytes()), d, &mut s);
        }
        s
    }

    /// Read the spec-shaped env directories of the layer at `layer` in `snap` (model reader:
    /// NAME.<known suffix> → that behaviour; no dot → override; anything else ignored), plus the
    /// implicit layer paths. `root_abs` is the absolute path the snapshot is rooted at.
    pub fn read_layer(snap: &Snap, layer: &[u8], root_abs: &[u8]) -> EnvModel {
        let mut m = EnvModel::default();
        // entries are opened by name, so a symbolic link counts as what it resolves to
        let through = |full: &[u8]| -> Option<&Node> {
            match snap.get(full) {
                Some(Node::Symlink { .. }) => snap.resolve(full, root_abs).and_then(|r| snap.get(&r)),
                other => other,
            }
        };
        let read_dir = |dir: &[u8], d: &mut Delta| {
            for child in snap.children(dir) {
                let full = join(dir, &child);
                let Some(Node::File { data, .. }) = through(&full) else {
                    continue;
                };
                match child.iter().rposition(|c| *c == b'.') {
                    None => d.insert(Beh::Override, &child, data),
                    Some(i) => {
                        if let Some(beh) = Beh::from_suffix(&child[i + 1..]) {
                            if i > 0 {
                                d.insert(beh, &child[..i], data);
                            }
                        }
                    }
                }
            }
        };
        // a layer path that is itself a link is read through it (values keep the path as given)
        let real_layer = snap.resolve(layer, root_abs).unwrap_or_else(|| layer.to_vec());
        read_dir(&join(&real_layer, b"env"), &mut m.all);
        read_dir(&join(&real_layer, b"env.build"), &mut m.build);
        let launch = join(&real_layer, b"env.launch");
        read_dir(&launch, &mut m.launch);
        for child in snap.children(&launch) {
            let full = join(&launch, &child);
            if through(&full).is_some_and(Node::is_dir) {
                if let Ok(name) = String::from_utf8(child.clone()) {
                    let mut d = Delta::default();
                    let real = snap.resolve(&full, root_abs).unwrap_or_else(|| full.clone());
                    read_dir(&real, &mut d);
                    m.process.insert(name, d);
                }
            }
        }
        let abs = |sub: &[u8]| {
            let mut v = root_abs.to_vec();
            v.push(b'/');
            v.extend_from_slice(&join(layer, sub));
            v
        };
        let is_dir = |sub: &[u8]| snap.resolves_to_dir(&join(layer, sub), root_abs);
        if is_dir(b"bin") {
            m.implicit_build.push((p("PATH"), abs(b"bin")));
            m.implicit_launch.push((p("PATH"), abs(b"bin")));
        }
        if is_dir(b"lib") {
            m.implicit_build.push((p("LIBRARY_PATH"), abs(b"lib")));
            m.implicit_build.push((p("LD_LIBRARY_PATH"), abs(b"lib")));
            m.implicit_launch.push((p("LD_LIBRARY_PATH"), abs(b"lib")));
        }
        if is_dir(b"include") {
            m.implicit_build.push((p("CPATH"), abs(b"include")));
        }
        if is_dir(b"pkgconfig") {
            m.implicit_build.push((p("PKG_CONFIG_PATH"), abs(b"pkgconfig")));
        }
        m
    }

    /// Same environment without the implicit entries (what may be persisted).
    pub fn explicit_only(&self) -> EnvModel {
        let mut m = self.clone();
        m.implicit_build.clear();
        m.implicit_launch.clear();
        m
    }

    pub fn scopes(&self) -> Vec<ScopeM> {
        let mut v = vec![ScopeM::All, ScopeM::Build, ScopeM::Launch];
        for pn in self.process.keys() {
            v.push(ScopeM::Process(pn.clone()));
        }
        v.push(ScopeM::Process("no-such-process".to_string()));
        v
    }
}

/// Probe start environments over the given names: all unset, all empty, all set, and a mixed one.
pub fn probe_envs(names: &[Vec<u8>], mix: u64) -> Vec<EnvMap> {
    let mut out = vec![EnvMap::new()];
    out.push(names.iter().map(|n| (n.clone(), Vec::new())).collect());
    out.push(names.iter().map(|n| (n.clone(), b"S".to_vec())).collect());
    let mut mixed = EnvMap::new();
    for (i, n) in names.iter().enumerate() {
        match (mix >> (2 * (i % 30))) & 3 {
            0 => {}
            1 => {
                mixed.insert(n.clone(), Vec::new());
            }
            _ => {
                mixed.insert(n.clone(), b"prev:ious".to_vec());
            }
        }
    }
    out.push(mixed);
    out
}
