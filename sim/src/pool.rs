//! Parallelism is by worker *processes* (never by sharing a simulated world between threads).

use serde::de::DeserializeOwned;
use std::io::Read;
use std::path::PathBuf;
use std::process::{Command, Stdio};

pub fn verif_root() -> PathBuf {
    std::env::var_os("VERIF_ROOT").map_or_else(|| PathBuf::from("/verif"), PathBuf::from)
}

/// Where evidence and replay files go (normally the verif root; redirected when trying seeded
/// changes so that committed evidence is only ever written by runs on the real tree).
pub fn out_root() -> PathBuf {
    std::env::var_os("VERIF_OUT_DIR").map_or_else(verif_root, PathBuf::from)
}

pub fn shim_path() -> PathBuf {
    std::env::var_os("VERIF_SHIM").map_or_else(|| verif_root().join("build/libverifshim.so"), PathBuf::from)
}

pub fn self_exe() -> PathBuf {
    std::env::current_exe().expect("current_exe")
}

pub fn workers() -> usize {
    std::env::var("VERIF_WORKERS")
        .ok()
        .and_then(|s| s.parse().ok())
        .unwrap_or_else(|| std::thread::available_parallelism().map_or(8, usize::from))
        .clamp(1, 64)
}

#[derive(Debug)]
pub enum PoolError {
    Harness(String),
}

/// Run one worker process per argument vector, all in parallel; each must print a line
/// `RESULT <json>` and exit 0.
pub fn run_workers<T: DeserializeOwned + Send + 'static>(
    argvs: Vec<Vec<String>>,
    with_shim: bool,
) -> Result<Vec<T>, PoolError> {
    let mut children = Vec::new();
    for argv in argvs {
        let mut cmd = Command::new(self_exe());
        cmd.args(&argv).stdin(Stdio::null()).stdout(Stdio::piped()).stderr(Stdio::inherit());
        if with_shim {
            cmd.env("LD_PRELOAD", shim_path());
        } else {
            cmd.env_remove("LD_PRELOAD");
        }
        cmd.env_remove("VERIF_SHIM_PLAN");
        let child = cmd
            .spawn()
            .map_err(|e| PoolError::Harness(format!("cannot spawn worker: {e}")))?;
        children.push((argv, child));
    }
    let mut handles = Vec::new();
    for (argv, mut child) in children {
        handles.push(std::thread::spawn(move || -> Result<T, PoolError> {
            let mut out = String::new();
            child
                .stdout
                .take()
                .expect("stdout")
                .read_to_string(&mut out)
                .map_err(|e| PoolError::Harness(format!("worker output: {e}")))?;
            let status = child
                .wait()
                .map_err(|e| PoolError::Harness(format!("worker wait: {e}")))?;
            if !status.success() {
                return Err(PoolError::Harness(format!(
                    "worker {argv:?} exited with {status}; output: {}",
                    out.chars().take(2000).collect::<String>()
                )));
            }
            let line = out
                .lines()
                .find_map(|l| l.strip_prefix("RESULT "))
                .ok_or_else(|| PoolError::Harness(format!("worker {argv:?} printed no RESULT line")))?;
            serde_json::from_str(line).map_err(|e| PoolError::Harness(format!("worker result does not parse: {e}")))
        }));
    }
    let mut results = Vec::new();
    for h in handles {
        results.push(h.join().map_err(|_| PoolError::Harness("worker reader panicked".into()))??);
    }
    Ok(results)
}

#[derive(Debug, Clone)]
pub struct WorkerFailure {
    pub argv: Vec<String>,
    pub signal: Option<i32>,
    pub code: Option<i32>,
    pub output: String,
}

/// Like `run_workers`, but a worker that dies is reported per worker instead of failing the
/// whole batch (a crash of the code under test inside a worker is a finding, not a harness error).
pub fn run_workers_detailed<T: DeserializeOwned + Send + 'static>(
    argvs: Vec<Vec<String>>,
    with_shim: bool,
) -> Vec<Result<T, WorkerFailure>> {
    use std::os::unix::process::ExitStatusExt;
    let mut handles = Vec::new();
    for argv in argvs {
        let shim = with_shim;
        handles.push(std::thread::spawn(move || -> Result<T, WorkerFailure> {
            let mut cmd = Command::new(self_exe());
            cmd.args(&argv).stdin(Stdio::null()).stdout(Stdio::piped()).stderr(Stdio::piped());
            if shim {
                cmd.env("LD_PRELOAD", shim_path());
            } else {
                cmd.env_remove("LD_PRELOAD");
            }
            cmd.env_remove("VERIF_SHIM_PLAN");
            let fail = |signal, code, output: String| WorkerFailure {
                argv: argv.clone(),
                signal,
                code,
                output,
            };
            let out = cmd.output().map_err(|e| fail(None, None, format!("cannot spawn worker: {e}")))?;
            let stdout = String::from_utf8_lossy(&out.stdout).into_owned();
            let stderr: String = String::from_utf8_lossy(&out.stderr).lines().rev().take(6).collect::<Vec<_>>().join(" | ");
            if !out.status.success() {
                return Err(fail(out.status.signal(), out.status.code(), stderr));
            }
            let line = stdout
                .lines()
                .find_map(|l| l.strip_prefix("RESULT "))
                .ok_or_else(|| fail(None, out.status.code(), "no RESULT line".into()))?;
            serde_json::from_str(line).map_err(|e| fail(None, out.status.code(), format!("result does not parse: {e}")))
        }));
    }
    handles
        .into_iter()
        .map(|h| {
            h.join().unwrap_or_else(|_| {
                Err(WorkerFailure {
                    argv: Vec::new(),
                    signal: None,
                    code: None,
                    output: "worker reader panicked".into(),
                })
            })
        })
        .collect()
}

/// Split 0..n into `k` contiguous ranges.
pub fn ranges(n: u64, k: usize) -> Vec<(u64, u64)> {
    let k = k.max(1) as u64;
    let mut v = Vec::new();
    let per = n / k;
    let rem = n % k;
    let mut start = 0;
    for i in 0..k {
        let len = per + u64::from(i < rem);
        if len > 0 {
            v.push((start, start + len));
        }
        start += len;
    }
    v
}

/// Kills a child process if it is still running after `secs` (the code under test hanging is a
/// finding, not a reason for the check to hang). `finish` says whether the limit was hit.
pub struct KillGuard {
    done: std::sync::Arc<std::sync::atomic::AtomicBool>,
    fired: std::sync::Arc<std::sync::atomic::AtomicBool>,
}

pub fn child_time_limit() -> u64 {
    std::env::var("VERIF_CHILD_SECS").ok().and_then(|s| s.parse().ok()).unwrap_or(300)
}

pub fn kill_after(pid: u32, secs: u64) -> KillGuard {
    use std::sync::atomic::{AtomicBool, Ordering};
    let done = std::sync::Arc::new(AtomicBool::new(false));
    let fired = std::sync::Arc::new(AtomicBool::new(false));
    let (d, f) = (done.clone(), fired.clone());
    let _ = std::thread::Builder::new().name("child-time-limit".into()).spawn(move || {
        let started = std::time::Instant::now();
        while !d.load(Ordering::SeqCst) {
            std::thread::sleep(std::time::Duration::from_millis(100));
            if started.elapsed().as_secs() >= secs && !d.load(Ordering::SeqCst) {
                f.store(true, Ordering::SeqCst);
                // SAFETY: plain kill(2) on a pid we spawned and have not reaped yet.
                unsafe {
                    libc::kill(pid as i32, libc::SIGKILL);
                }
                return;
            }
        }
    });
    KillGuard { done, fired }
}

impl KillGuard {
    pub fn finish(self) -> bool {
        self.done.store(true, std::sync::atomic::Ordering::SeqCst);
        self.fired.load(std::sync::atomic::Ordering::SeqCst)
    }
}

/// `Command::output` with the child time limit; the bool says whether the child was killed.
pub fn output_limited(cmd: &mut Command) -> std::io::Result<(std::process::Output, bool)> {
    cmd.stdout(Stdio::piped()).stderr(Stdio::piped());
    let child = cmd.spawn()?;
    let guard = kill_after(child.id(), child_time_limit());
    let out = child.wait_with_output()?;
    Ok((out, guard.finish()))
}
