//! CLI of the simulator: `verif check <id> --tier quick|thorough`, `verif replay <file>`,
//! `verif selftest-determinism`, and the internal `verif worker …` entry points.

use simcore::e1;
use simcore::shimapi::Shim;
use std::path::PathBuf;

fn arg_after(args: &[String], flag: &str) -> Option<String> {
    args.iter().position(|a| a == flag).and_then(|i| args.get(i + 1).cloned())
}

fn harness_fail(msg: &str) -> ! {
    eprintln!("HARNESS-ERROR: {msg}");
    std::process::exit(2);
}

fn need_shim() -> Shim {
    Shim::load().unwrap_or_else(|| harness_fail("LD_PRELOAD shim not loaded in worker"))
}

fn worker_scratch(id: &str) -> PathBuf {
    let d = simcore::scratch_root().join(format!("w{id}"));
    std::fs::create_dir_all(&d).unwrap_or_else(|e| harness_fail(&format!("scratch dir: {e}")));
    d
}

fn cleanup_scratch() {
    let d = simcore::scratch_root();
    let _ = simcore::snap::wipe(&d);
    let _ = std::fs::remove_dir(&d);
}

fn main() {
    // SAFETY: single-threaded at this point; fixes the permission bits new files get.
    unsafe {
        libc::umask(0o022);
    }
    let args: Vec<String> = std::env::args().skip(1).collect();
    let code = match args.first().map(String::as_str) {
        Some("check") => {
            let id = args.get(1).cloned().unwrap_or_default();
            let tier = arg_after(&args, "--tier")
                .or_else(|| std::env::var("VERIF_TIER").ok())
                .unwrap_or_else(|| "quick".into());
            let code = match id.as_str() {
                "C01" | "C02" | "C03" | "C10" | "C11" => e1::driver::run_check(&id, &tier),
                "C12" => e1::faults::run_check(&tier),
                "C19" => simcore::e5::run_check(&tier),
                "C15" => simcore::e3::run_check(&tier),
                "C16" | "C17" => simcore::e4::run_check(&id, &tier),
                "C05" => simcore::e2::c05::run_check(&tier),
                "C06" => simcore::e2::c06::run_check(&tier),
                "C20" => simcore::e2::c20::run_check(&tier),
                other => harness_fail(&format!("unknown check {other}")),
            };
            cleanup_scratch();
            code
        }
        Some("replay") => {
            let file = args.get(1).cloned().unwrap_or_default();
            let code = replay(&file);
            cleanup_scratch();
            code
        }
        Some("selftest-determinism") => {
            let code = e1::selftest::run(&args);
            cleanup_scratch();
            code
        }
        Some("worker") => {
            let code = worker(&args[1..]);
            // a worker's own scratch root is empty by now: do not leave the directory behind
            let _ = std::fs::remove_dir(simcore::scratch_root());
            code
        }
        _ => {
            eprintln!("usage: verif check <Cxx> --tier quick|thorough | replay <file> | selftest-determinism");
            2
        }
    };
    std::process::exit(code);
}

fn replay(file: &str) -> i32 {
    let text = std::fs::read_to_string(file).unwrap_or_else(|e| harness_fail(&format!("{file}: {e}")));
    let v: serde_json::Value = serde_json::from_str(&text).unwrap_or_else(|e| harness_fail(&format!("{file}: {e}")));
    let engine = v.get("engine").and_then(|e| e.as_str()).unwrap_or("");
    match engine {
        "e1" | "e1-fault" => {
            let argv = vec!["worker".to_string(), format!("{engine}-replay"), file.to_string()];
            if v.pointer("/violation/invariant").and_then(|x| x.as_str()) == Some("I-crash")
                || v.get("signature").and_then(|x| x.as_str()) == Some("I-fault:crash")
            {
                // the recorded violation is "the process dies": reproduced iff it dies again
                let res: Vec<Result<serde_json::Value, simcore::pool::WorkerFailure>> =
                    simcore::pool::run_workers_detailed(vec![argv], true);
                let died = matches!(&res[0], Err(f) if f.signal.is_some());
                println!("{{\"reproduced\": {died}}}");
                if died {
                    let p = v.get("property").and_then(|p| p.as_str()).unwrap_or("?");
                    println!("VIOLATION property={p} replay={file}");
                    return 1;
                }
                println!("NOT REPRODUCED");
                return 0;
            }
            let out: Result<Vec<serde_json::Value>, _> = simcore::pool::run_workers(vec![argv], true);
            match out {
                Ok(r) => {
                    let reproduced = r[0].get("reproduced").and_then(serde_json::Value::as_bool).unwrap_or(false);
                    println!("{}", serde_json::to_string_pretty(&r[0]).unwrap_or_default());
                    if reproduced {
                        let p = v.get("property").and_then(|p| p.as_str()).unwrap_or("?");
                        println!("VIOLATION property={p} replay={file}");
                        1
                    } else {
                        println!("NOT REPRODUCED");
                        0
                    }
                }
                Err(e) => harness_fail(&format!("{e:?}")),
            }
        }
        "e2-c05" | "e2-c06" | "e2-c20" | "e2-c12" | "e5" | "e5-direct" | "e4" | "e3" => {
            let worker_name = if engine == "e5-direct" { "e5" } else { engine };
            let argv = vec!["worker".to_string(), worker_name.to_string(), "--replay".to_string(), file.to_string()];
            let out: Result<Vec<serde_json::Value>, _> = simcore::pool::run_workers(vec![argv], false);
            match out {
                Ok(r) => {
                    let reproduced = r[0].get("reproduced").and_then(serde_json::Value::as_bool).unwrap_or(false);
                    println!("{}", serde_json::to_string_pretty(&r[0]).unwrap_or_default());
                    if reproduced {
                        let p = v.get("property").and_then(|p| p.as_str()).unwrap_or("?");
                        println!("VIOLATION property={p} replay={file}");
                        1
                    } else {
                        println!("NOT REPRODUCED");
                        0
                    }
                }
                Err(e) => harness_fail(&format!("{e:?}")),
            }
        }
        other => harness_fail(&format!("unknown engine {other:?} in replay file")),
    }
}

fn worker(args: &[String]) -> i32 {
    if args.iter().any(|a| a == "--minimise" || a == "--replay")
        || matches!(args.first().map(String::as_str), Some("e1-min" | "e1-replay" | "e1-fault-replay"))
    {
        // replayed and minimised executions share one fixed scratch location
        // SAFETY: single-threaded at this point.
        unsafe {
            std::env::set_var("VERIF_FIXED_SCRATCH", "1");
        }
        simcore::lock_fixed_scratch();
    }
    match args.first().map(String::as_str) {
        Some("e1") => {
            let shim = need_shim();
            let class = arg_after(args, "--class")
                .and_then(|c| e1::generate::Class::parse(&c))
                .unwrap_or_else(|| harness_fail("bad --class"));
            let from: u64 = arg_after(args, "--from").and_then(|s| s.parse().ok()).unwrap_or(0);
            let to: u64 = arg_after(args, "--to").and_then(|s| s.parse().ok()).unwrap_or(0);
            let tier = arg_after(args, "--tier").unwrap_or_else(|| "quick".into());
            let props: Vec<String> = arg_after(args, "--props")
                .unwrap_or_default()
                .split(',')
                .map(str::to_string)
                .collect();
            let id = arg_after(args, "--id").unwrap_or_else(|| "0".into());
            let mut plan = e1::plan_for(class, &tier);
            plan.keep_event_log = args.iter().any(|a| a == "--eventlog");
            if let Some(ms) = arg_after(args, "--max-steps").and_then(|s| s.parse().ok()) {
                plan.max_steps = ms;
            }
            let scratch = worker_scratch(&id);
            let sum = e1::worker_runs(simcore::global_seed(), &plan, from, to, &scratch, &shim, &props);
            let _ = simcore::snap::wipe(&scratch);
            let _ = std::fs::remove_dir(&scratch);
            println!("RESULT {}", serde_json::to_string(&sum).unwrap_or_default());
            0
        }
        Some("e1-min") => {
            let shim = need_shim();
            let file = args.get(1).cloned().unwrap_or_default();
            let text = std::fs::read_to_string(&file).unwrap_or_else(|e| harness_fail(&format!("{file}: {e}")));
            let rep: e1::Replay = serde_json::from_str(&text).unwrap_or_else(|e| harness_fail(&format!("{file}: {e}")));
            let scratch = worker_scratch("min");
            let min = e1::minimise(&rep, &scratch, &shim);
            let _ = simcore::snap::wipe(&scratch);
            let _ = std::fs::remove_dir(&scratch);
            println!("RESULT {}", serde_json::to_string(&min).unwrap_or_default());
            0
        }
        Some("e1-replay") => {
            let shim = need_shim();
            let file = args.get(1).cloned().unwrap_or_default();
            let text = std::fs::read_to_string(&file).unwrap_or_else(|e| harness_fail(&format!("{file}: {e}")));
            let rep: e1::Replay = serde_json::from_str(&text).unwrap_or_else(|e| harness_fail(&format!("{file}: {e}")));
            let scratch = worker_scratch("replay");
            let out = e1::replay_once(&rep, &scratch, &shim);
            let _ = simcore::snap::wipe(&scratch);
            let _ = std::fs::remove_dir(&scratch);
            let reproduced = out.violation.as_ref().is_some_and(|v| {
                v.invariant == rep.violation.invariant && v.signature == rep.violation.signature && v.step == rep.violation.step
            });
            let res = serde_json::json!({
                "reproduced": reproduced,
                "expected": rep.violation,
                "observed": out.violation,
                "event_log": out.event_log,
            });
            println!("RESULT {}", serde_json::to_string(&res).unwrap_or_default());
            0
        }
        Some("e1-fault") => e1::faults::worker(args),
        Some("e5") => simcore::e5::worker(args),
        Some("e3") => simcore::e3::worker(args),
        Some("e4") => simcore::e4::worker(args),
        Some("e2-c05") => simcore::e2::c05::worker(args),
        Some("e2-c06") => simcore::e2::c06::worker(args),
        Some("e2-c20") => simcore::e2::c20::worker(args),
        Some("e2-c12") => simcore::e2::faults::worker(args),
        Some("e1-fault-replay") => e1::faults::replay_worker(args),
        _ => harness_fail("unknown worker"),
    }
}
