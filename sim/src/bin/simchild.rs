//! Scripted child process for E5: does nothing until told over a Unix socket.
//!   W <fd> <n>   one write(2) of the next n stream bytes with O_NONBLOCK; replies `A <accepted>`,
//!                `E` (EAGAIN: a real child would block here) or `P` (EPIPE: reader gone)
//!   C <fd>       close; replies `OK`
//!   X <code>     replies `OK`, then exit(code)
//!   K <signal>   replies `OK`, then kill(self, signal)
//! Bytes are a fixed function of (stream, offset), so order and completeness are checkable.

use std::io::{BufRead, BufReader, Write};
use std::os::unix::net::UnixStream;

fn main() {
    let path = std::env::args().nth(1).expect("socket path");
    // SAFETY: plain libc calls on our own fds; SIGPIPE must not kill the scripted child.
    unsafe {
        libc::signal(libc::SIGPIPE, libc::SIG_IGN);
        for fd in [1, 2] {
            let fl = libc::fcntl(fd, libc::F_GETFL);
            libc::fcntl(fd, libc::F_SETFL, fl | libc::O_NONBLOCK);
        }
    }
    let stream = UnixStream::connect(&path).expect("connect");
    let mut out = stream.try_clone().expect("clone");
    let reader = BufReader::new(stream);
    let mut offset = [0u64; 3];
    for line in reader.lines() {
        let Ok(line) = line else { break };
        let parts: Vec<&str> = line.split_whitespace().collect();
        match parts.as_slice() {
            ["W", fd, n] => {
                let fd: usize = fd.parse().expect("fd");
                let n: usize = n.parse().expect("n");
                let buf: Vec<u8> = (0..n as u64)
                    .map(|i| simcore::e5::stream_byte(fd as u64, offset[fd] + i))
                    .collect();
                // SAFETY: valid buffer and length.
                let r = unsafe { libc::write(fd as i32, buf.as_ptr().cast(), buf.len()) };
                if r >= 0 {
                    offset[fd] += r as u64;
                    writeln!(out, "A {r}").expect("reply");
                } else {
                    let e = std::io::Error::last_os_error().raw_os_error().unwrap_or(0);
                    if e == libc::EAGAIN {
                        writeln!(out, "E").expect("reply");
                    } else {
                        writeln!(out, "P").expect("reply");
                    }
                }
            }
            ["C", fd] => {
                let fd: i32 = fd.parse().expect("fd");
                // SAFETY: closing our own descriptor.
                unsafe {
                    libc::close(fd);
                }
                writeln!(out, "OK").expect("reply");
            }
            ["X", code] => {
                let code: i32 = code.parse().expect("code");
                writeln!(out, "OK").expect("reply");
                let _ = out.flush();
                std::process::exit(code);
            }
            ["K", sig] => {
                let sig: i32 = sig.parse().expect("sig");
                writeln!(out, "OK").expect("reply");
                let _ = out.flush();
                // SAFETY: signalling ourselves.
                unsafe {
                    libc::kill(libc::getpid(), sig);
                }
            }
            _ => {
                writeln!(out, "?").expect("reply");
            }
        }
    }
}
