//! Stand-in for `docker` and `pack` (one binary, two names on PATH). Logs its argv, keeps a
//! tiny resource state (containers / images / volumes as files), and fails when the fault plan
//! says so. Default CLI semantics: `rm/rmi/volume remove --force` of a missing object succeed;
//! the scenario's `rmi_mode` selects older/refusing behaviour for `rmi`.

use serde_json::json;
use std::io::Write;
use std::path::{Path, PathBuf};

use simcore::e4::dir_digest;

fn touch(p: &Path) {
    if let Some(parent) = p.parent() {
        let _ = std::fs::create_dir_all(parent);
    }
    let _ = std::fs::write(p, b"");
}

fn read_num(p: &Path) -> u64 {
    std::fs::read_to_string(p).ok().and_then(|s| s.trim().parse().ok()).unwrap_or(0)
}

fn main() {
    let argv: Vec<String> = std::env::args().collect();
    let prog = Path::new(&argv[0])
        .file_name()
        .map(|s| s.to_string_lossy().into_owned())
        .unwrap_or_default();
    let dir = PathBuf::from(std::env::var_os("VERIF_STUB_DIR").expect("VERIF_STUB_DIR"));
    let state = dir.join("state");
    let args: Vec<&str> = argv[1..].iter().map(String::as_str).collect();
    let global = read_num(&dir.join("count")) + 1;
    let _ = std::fs::write(dir.join("count"), global.to_string());
    let sub = args.first().copied().unwrap_or("");
    let sub2 = args.get(1).copied().unwrap_or("");
    let listing = prog == "docker"
        && (sub == "ps" || sub == "images" || ((sub == "image" || sub == "volume" || sub == "container") && (sub2 == "ls" || sub2 == "list")));
    let cleanup = prog == "docker" && !listing && (sub == "rm" || sub == "rmi" || sub == "volume");
    let nc_index = if cleanup {
        None
    } else {
        let n = read_num(&dir.join("count_noncleanup")) + 1;
        let _ = std::fs::write(dir.join("count_noncleanup"), n.to_string());
        Some(n)
    };
    let fail_at = read_num(&dir.join("fail_noncleanup_at"));
    let injected = nc_index.is_some() && nc_index == Some(fail_at) && fail_at > 0;
    // names after the sub-command that are not flags (good enough for the state keeping)
    let positional = |from: usize| -> Vec<String> {
        args.iter().skip(from).filter(|a| !a.starts_with("--")).map(|s| (*s).to_string()).collect()
    };
    let mut exit = 0;
    let mut out = String::new();
    let mut digest = None;
    let mut removed: Vec<String> = Vec::new();
    let mut bp_dirs: Vec<(String, String, bool)> = Vec::new();
    match (prog.as_str(), sub) {
        ("pack", "build") => {
            let image = args.get(1).copied().unwrap_or("").to_string();
            let mut i = 2;
            let mut path = None;
            let mut volumes = Vec::new();
            let mut fail_requested = false;
            while i < args.len() {
                match args[i] {
                    "--path" => {
                        path = args.get(i + 1).map(|s| (*s).to_string());
                        i += 2;
                    }
                    "--cache" => {
                        if let Some(v) = args.get(i + 1).and_then(|c| c.split("name=").nth(1)) {
                            volumes.push(v.to_string());
                        }
                        i += 2;
                    }
                    "--env" => {
                        if args.get(i + 1) == Some(&"VERIF_PACK_FAILS=1") {
                            fail_requested = true;
                        }
                        i += 2;
                    }
                    "--buildpack" => {
                        if let Some(v) = args.get(i + 1) {
                            let d = Path::new(v);
                            if d.is_dir() {
                                bp_dirs.push((
                                    (*v).to_string(),
                                    std::fs::read_to_string(d.join("buildpack.toml")).unwrap_or_default(),
                                    d.join("bin/build").is_file(),
                                ));
                            }
                        }
                        i += 2;
                    }
                    "--builder" | "--pull-policy" => i += 2,
                    _ => i += 1,
                }
            }
            if let Some(p) = &path {
                digest = Some(dir_digest(Path::new(p)));
            }
            // cache volumes exist as soon as pack starts working
            for v in &volumes {
                touch(&state.join("volumes").join(v));
            }
            if injected || fail_requested {
                exit = 1;
                eprintln!("ERROR: failed to build: injected failure");
            } else {
                // reproducible builds: identical inputs give the same image id under any name
                // (absolute locations are not part of the image's content)
                let scratch = dir.parent().map(|p| p.display().to_string()).unwrap_or_default();
                let inputs = format!("{:?}|{:?}", digest, args.iter().filter(|a| !a.starts_with("libcnbtest_") && !a.contains("name=libcnbtest_") && !a.starts_with("VERIF_ROOT=") && !a.contains(scratch.as_str())).collect::<Vec<_>>());
                // (a sha256-looking id: 64 hex digits)
                let id: String = (0..4).map(|k| format!("{:016x}", simcore::rng::hash_str(&format!("{k}{inputs}")))).collect();
                let p = state.join("images").join(&image);
                touch(&p);
                let _ = std::fs::write(&p, id);
                out.push_str("Successfully built image\n");
            }
        }
        ("pack", "sbom") => {
            if injected {
                exit = 1;
            } else if let Some(pos) = args.iter().position(|a| *a == "--output-dir") {
                if let Some(d) = args.get(pos + 1) {
                    touch(&Path::new(d).join("layers/sbom/launch/sim_bp/sbom.cdx.json"));
                }
            }
        }
        ("docker", "run") => {
            // option parsing stops at the image; value flags consume the next argument
            let mut i = 1;
            let mut name = String::new();
            let mut detach = false;
            let mut rm = false;
            let mut image = String::new();
            while i < args.len() {
                match args[i] {
                    "--name" => {
                        name = args.get(i + 1).copied().unwrap_or("").to_string();
                        i += 2;
                    }
                    "--platform" | "--entrypoint" | "--env" | "--publish" | "--mount" => i += 2,
                    "--detach" => {
                        detach = true;
                        i += 1;
                    }
                    "--rm" => {
                        rm = true;
                        i += 1;
                    }
                    other => {
                        image = other.to_string();
                        break;
                    }
                }
            }
            if injected {
                // like a container that was created but failed to start
                if detach && !rm {
                    touch(&state.join("containers").join(&name));
                }
                exit = 125;
                eprintln!("docker: injected failure");
            } else if !state.join("images").join(&image).exists() {
                exit = 125;
                eprintln!("Unable to find image '{image}' locally");
            } else {
                if detach && !rm {
                    touch(&state.join("containers").join(&name));
                }
                out.push_str("container output\n");
            }
        }
        ("docker", "logs" | "exec" | "port") => {
            let name = positional(1).first().cloned().unwrap_or_default();
            if injected || !state.join("containers").join(&name).exists() {
                exit = 1;
                eprintln!("Error response from daemon: No such container: {name}");
            } else if sub == "port" {
                out.push_str("127.0.0.1:49153\n");
            } else {
                out.push_str("some output\n");
            }
        }
        ("docker", _) if listing => {
            // `docker ps -a` / `image ls` / `volume ls`, optionally `--filter name=<pattern>` or
            // `reference=<pattern>`: names only, one per line
            let kind = match sub {
                "ps" | "container" => "containers",
                "images" | "image" => "images",
                _ => "volumes",
            };
            let pattern: Option<String> = args
                .iter()
                .filter_map(|a| a.split_once('=').filter(|(k, _)| k.ends_with("name") || k.ends_with("reference")).map(|(_, v)| v))
                .chain(args.windows(2).filter(|w| w[0] == "--filter" || w[0] == "-f").filter_map(|w| w[1].split_once('=').map(|(_, v)| v)))
                .map(|v| v.trim_matches(|c| c == '^' || c == '*' || c == '$' || c == '"').to_string())
                .next();
            if let Ok(rd) = std::fs::read_dir(state.join(kind)) {
                let mut names: Vec<String> = rd.flatten().map(|e| e.file_name().to_string_lossy().into_owned()).collect();
                names.sort();
                for n in names {
                    if pattern.as_ref().is_none_or(|p| n.contains(p.as_str())) {
                        out.push_str(&n);
                        out.push('\n');
                    }
                }
            }
        }
        ("docker", "image" | "inspect") if args.iter().any(|a| *a == "inspect") || sub == "inspect" => {
            // `docker image inspect --format {{.Id}} <name>`: the image id
            let name = args.iter().skip(1).rev().find(|a| !a.starts_with('-') && !a.contains("{{") && **a != "inspect").copied().unwrap_or("");
            match std::fs::read_to_string(state.join("images").join(name)) {
                Ok(id) if !injected => out.push_str(&format!("sha256:{id}\n")),
                _ => {
                    exit = 1;
                    eprintln!("Error: No such image: {name}");
                }
            }
        }
        ("docker", "rm") => {
            for n in positional(1) {
                if std::fs::remove_file(state.join("containers").join(&n)).is_ok() {
                    removed.push(format!("containers/{n}"));
                }
            }
            if !args.contains(&"--force") {
                exit = 1;
            }
        }
        ("docker", "rmi") => {
            let mode = read_num(&dir.join("rmi_mode"));
            for n in positional(1) {
                let p = state.join("images").join(&n);
                if mode == 2 {
                    exit = 1;
                    eprintln!("Error response from daemon: conflict: unable to delete (injected)");
                    continue;
                }
                if !p.exists() {
                    // not a name: maybe an image id — that removes every name of the image
                    let want = n.trim_start_matches("sha256:").to_string();
                    let mut hit = false;
                    if let Ok(rd) = std::fs::read_dir(state.join("images")) {
                        for e in rd.flatten() {
                            if !want.is_empty() && std::fs::read_to_string(e.path()).is_ok_and(|id| id == want) {
                                hit = true;
                                if std::fs::remove_file(e.path()).is_ok() {
                                    removed.push(format!("images/{}", e.file_name().to_string_lossy()));
                                }
                            }
                        }
                    }
                    if hit {
                        continue;
                    }
                }
                if mode == 1 && !p.exists() {
                    exit = 1;
                    eprintln!("Error response from daemon: No such image");
                }
                if std::fs::remove_file(&p).is_ok() {
                    removed.push(format!("images/{n}"));
                }
            }
            if !args.contains(&"--force") {
                exit = 1;
            }
        }
        ("docker", "volume") => {
            for n in positional(2) {
                if std::fs::remove_file(state.join("volumes").join(&n)).is_ok() {
                    removed.push(format!("volumes/{n}"));
                }
            }
            if !args.contains(&"--force") {
                exit = 1;
            }
        }
        _ => {
            exit = 64;
            eprintln!("stubcli: unknown invocation {prog} {args:?}");
        }
    }
    if let Ok(mut f) = std::fs::OpenOptions::new().create(true).append(true).open(dir.join("log.jsonl")) {
        let _ = writeln!(
            f,
            "{}",
            json!({"i": global, "nc": nc_index, "prog": prog, "argv": args, "exit": exit, "injected": injected, "digest": digest, "bp_dirs": bp_dirs, "removed": removed})
        );
    }
    print!("{out}");
    std::process::exit(exit);
}
