//! The simulated buildpack executable: the real libcnb runtime around scripted author code.
//! Invoked by the stub lifecycle under the names `detect` / `build` (argv[0]).

use simcore::e1::exec::SimBp;
use simcore::e2::{bp, script};

fn main() {
    // SAFETY: single-threaded; fixes the permission bits of files the buildpack creates.
    unsafe {
        libc::umask(0o022);
    }
    if let Some(path) = std::env::var_os(script::SCRIPT_ENV) {
        if let Ok(text) = std::fs::read_to_string(&path) {
            match serde_json::from_str::<script::Script>(&text) {
                Ok(s) => bp::install(s),
                Err(e) => {
                    eprintln!("HARNESS-ERROR: simbp script does not parse: {e}");
                    std::process::exit(97);
                }
            }
        }
    }
    if let Some(multi) = std::env::var_os("VERIF_SIMBP_MULTI") {
        // several phase invocations in ONE process through the public (doc-hidden) entry points
        // `libcnb_runtime_detect` / `libcnb_runtime_build`: state cached across invocations shows
        run_multi(std::path::Path::new(&multi));
        return;
    }
    libcnb::libcnb_runtime(&SimBp);
}

#[derive(serde::Deserialize)]
struct MultiInvocation {
    build: bool,
    cwd: std::path::PathBuf,
    env: Vec<(String, String)>,
    args: Vec<String>,
    script: script::Script,
}

fn run_multi(file: &std::path::Path) {
    use libcnb::Buildpack;
    let text = std::fs::read_to_string(file).expect("multi file");
    let list: Vec<MultiInvocation> = serde_json::from_str(&text).expect("multi file parses");
    let mut codes: Vec<i32> = Vec::new();
    for inv in list {
        for k in [
            "CNB_BUILDPACK_DIR",
            "CNB_TARGET_OS",
            "CNB_TARGET_ARCH",
            "CNB_TARGET_ARCH_VARIANT",
            "CNB_TARGET_DISTRO_NAME",
            "CNB_TARGET_DISTRO_VERSION",
        ] {
            // SAFETY: single-threaded process.
            unsafe { std::env::remove_var(k) };
        }
        for (k, v) in &inv.env {
            // SAFETY: single-threaded process.
            unsafe { std::env::set_var(k, v) };
        }
        std::env::set_current_dir(&inv.cwd).expect("chdir");
        bp::install(inv.script);
        let result = if inv.build {
            libcnb::libcnb_runtime_build(
                &SimBp,
                libcnb::BuildArgs {
                    layers_dir_path: inv.args[0].clone().into(),
                    platform_dir_path: inv.args[1].clone().into(),
                    buildpack_plan_path: inv.args[2].clone().into(),
                },
            )
        } else {
            libcnb::libcnb_runtime_detect(
                &SimBp,
                libcnb::DetectArgs {
                    platform_dir_path: inv.args[0].clone().into(),
                    build_plan_path: inv.args[1].clone().into(),
                },
            )
        };
        codes.push(match result {
            Ok(c) => c,
            Err(e) => {
                SimBp.on_error(e);
                1
            }
        });
    }
    println!("codes={codes:?}");
}
