//! The simulated buildpack executable: the real libcnb runtime around scripted author code.
//! Invoked by the stub lifecycle under the names `detect` / `build` (argv[0]).

use simcore::e1::exec::SimBp;
use simcore::e2::{bp, script};

fn main() {
    // SAFETY: single-threaded; fixes the permission bits of files the buildpack creates.
    unsafe {
        libc::umask(0o022);
    }
    if let Some(path) = std::env::var_os(script::SCRIPT_ENV) {
        if let Ok(text) = std::fs::read_to_string(&path) {
            match serde_json::from_str::<script::Script>(&text) {
                Ok(s) => bp::install(s),
                Err(e) => {
                    eprintln!("HARNESS-ERROR: simbp script does not parse: {e}");
                    std::process::exit(97);
                }
            }
        }
    }
    libcnb::libcnb_runtime(&SimBp);
}
