//! Scenario interpreter for E4: drives the real libcnb-test (TestRunner, TestContext,
//! ContainerContext) exactly like an integration test would, one scenario per process.
//! `docker` and `pack` on PATH are stand-ins; TMPDIR and CARGO_MANIFEST_DIR point into the
//! scenario's scratch directory.

use libcnb_test::{BuildConfig, BuildpackReference, ContainerConfig, PackResult, TestContext, TestRunner};
use simcore::e4::scenario::{BuildNode, CStep, Fault, Scenario, Step};
use std::sync::atomic::{AtomicU32, Ordering};

static POSITION: AtomicU32 = AtomicU32::new(0);
static PANIC_AT: AtomicU32 = AtomicU32::new(u32::MAX);

/// A user-code position: panics here when the fault plan says so.
fn position(what: &str) {
    let p = POSITION.fetch_add(1, Ordering::SeqCst);
    if p == PANIC_AT.load(Ordering::SeqCst) {
        panic!("injected panic in user code at position {p} ({what})");
    }
}

fn build_config(n: &BuildNode, root: usize) -> BuildConfig {
    let c = &n.cfg;
    let app = if c.app_dir_relative {
        std::path::PathBuf::from("fixtures/app")
    } else {
        std::path::PathBuf::from(std::env::var("CARGO_MANIFEST_DIR").expect("CARGO_MANIFEST_DIR")).join("fixtures/app")
    };
    let mut cfg = if c.app_dir_via_setter {
        // the documented base-config pattern: a config is created first, the app dir set later
        let mut cfg = BuildConfig::new(c.builder.clone(), "fixtures/does-not-matter");
        cfg.app_dir(app);
        cfg
    } else {
        BuildConfig::new(c.builder.clone(), app)
    };
    let mut refs: Vec<BuildpackReference> = c.buildpacks.iter().map(|b| BuildpackReference::Other(b.clone())).collect();
    if let Some((at, by_id)) = c.own_buildpack {
        let own = if by_id {
            BuildpackReference::WorkspaceBuildpack(simcore::e4::OWN_BUILDPACK_ID.parse().expect("buildpack id"))
        } else {
            BuildpackReference::CurrentCrate
        };
        refs.insert(at.min(refs.len()), own);
    }
    cfg.buildpacks(refs);
    if c.target_aarch64 && c.own_buildpack.is_none() {
        cfg.target_triple("aarch64-unknown-linux-musl");
    }
    let half = c.env.len() / 2;
    match c.env_style {
        1 => {
            cfg.envs(c.env.clone());
        }
        2 => {
            for (k, v) in &c.env[..half] {
                cfg.env(k.clone(), v.clone());
            }
            cfg.envs(c.env[half..].to_vec());
        }
        3 => {
            cfg.envs(c.env[..half].to_vec());
            cfg.envs(c.env[half..].to_vec());
        }
        _ => {
            for (k, v) in &c.env {
                cfg.env(k.clone(), v.clone());
            }
        }
    }
    if c.pack_fails {
        cfg.env("VERIF_PACK_FAILS", "1");
    }
    // tells the builds of one independent `TestRunner::build` apart in the recorded history
    cfg.env(simcore::e4::ROOT_MARKER, root.to_string());
    if let Some(content) = c.preprocessor.clone() {
        let edit = c.preprocessor_edit;
        cfg.app_dir_preprocessor(move |dir| {
            position("app_dir_preprocessor");
            std::fs::write(dir.join("added-by-preprocessor.txt"), &content).expect("preprocessor write");
            simcore::e4::preprocessor_edit(&dir, edit).expect("preprocessor edit");
        });
    }
    cfg.expected_pack_result(if c.expect_failure { PackResult::Failure } else { PackResult::Success });
    cfg
}

fn container_config(cfg: &simcore::e4::scenario::ContainerCfg) -> ContainerConfig {
    let mut cc = ContainerConfig::new();
    if let Some(e) = &cfg.entrypoint {
        cc.entrypoint(e.clone());
    }
    if let Some(c) = &cfg.command {
        cc.command(c.clone());
    }
    let half = cfg.env.len() / 2;
    match cfg.env_style {
        1 => {
            cc.envs(cfg.env.clone());
        }
        2 => {
            for (k, v) in &cfg.env[..half] {
                cc.env(k.clone(), v.clone());
            }
            cc.envs(cfg.env[half..].to_vec());
        }
        3 => {
            cc.envs(cfg.env[..half].to_vec());
            cc.envs(cfg.env[half..].to_vec());
        }
        _ => {
            for (k, v) in &cfg.env {
                cc.env(k.clone(), v.clone());
            }
        }
    }
    for p in &cfg.ports {
        cc.expose_port(*p);
    }
    let mnt = std::path::PathBuf::from(std::env::var_os("VERIF_MNT").unwrap_or_default());
    for (s, t) in &cfg.mounts {
        cc.bind_mount(simcore::e4::scenario::resolve_mount_source(s, &mnt), t.clone());
    }
    cc
}

fn start(context: &TestContext, cfg: &simcore::e4::scenario::ContainerCfg, steps: &[CStep]) {
    context.start_container(container_config(cfg), |container| {
        for cs in steps {
            position("container step");
            match cs {
                CStep::LogsNow => {
                    let _ = container.logs_now();
                }
                CStep::LogsWait => {
                    let _ = container.logs_wait();
                }
                CStep::AddressForPort(p) => {
                    let _ = container.address_for_port(*p);
                }
                CStep::ShellExec(c) => {
                    let _ = container.shell_exec(c);
                }
                CStep::Nested { cfg, steps } => start(context, cfg, steps),
            }
        }
        position("end of container closure");
    });
}

fn run_steps(ctx: TestContext, n: &BuildNode, root: usize) {
    let mut ctx = Some(ctx);
    for step in &n.steps {
        position("build step");
        match step {
            Step::StartContainer { cfg, steps } => {
                let context = ctx.as_ref().expect("context");
                start(context, cfg, steps);
            }
            Step::RunShell(c) => {
                let _ = ctx.as_ref().expect("context").run_shell_command(c.clone());
            }
            Step::DownloadSbom => {
                ctx.as_ref().expect("context").download_sbom_files(|_files| {});
            }
            Step::NestedBuild { id, node } => {
                // a second, independent build while this one's context is alive
                let cfg = build_config(node, *id);
                TestRunner::default().build(cfg, |ctx2| run_steps(ctx2, node, *id));
            }
            Step::Rebuild(next) => {
                let cfg = build_config(next, root);
                ctx.take().expect("context").rebuild(cfg, |ctx2| run_steps(ctx2, next, root));
            }
        }
    }
    position("end of build closure");
}

fn main() {
    let path = std::env::args().nth(1).expect("scenario file");
    let text = std::fs::read_to_string(&path).expect("read scenario");
    let s: Scenario = serde_json::from_str(&text).expect("parse scenario");
    if let Fault::PanicAt(p) = s.fault {
        PANIC_AT.store(p, Ordering::SeqCst);
    }
    let seed = s.fastrand_seed;
    // Like `cargo test`: every independent build is its own test function on its own thread
    // (one after the other); a panic unwinds that thread only, the process goes on with the next.
    let s = std::sync::Arc::new(s);
    let mut code = 0;
    for root in 0..=s.more_roots.len() {
        let s = s.clone();
        let handle = std::thread::Builder::new()
            .name(format!("scenario-{root}"))
            .spawn(move || {
                // fastrand's generator is thread-local: seed it on the scenario thread
                fastrand::seed(seed.wrapping_add(root as u64));
                let runner = TestRunner::default();
                let node = if root == 0 { &s.root } else { &s.more_roots[root - 1] };
                let cfg = build_config(node, root);
                runner.build(cfg, |ctx| run_steps(ctx, node, root));
            })
            .expect("spawn scenario thread");
        if handle.join().is_err() {
            code = 101;
        }
    }
    println!("positions={}", POSITION.load(Ordering::SeqCst));
    std::process::exit(code);
}
