//! One integer decides everything: SplitMix64-seeded xoshiro256** with named sub-streams.

#[derive(Clone, Debug)]
pub struct Rng {
    s: [u64; 4],
}

pub fn splitmix64(x: u64) -> u64 {
    let mut z = x.wrapping_add(0x9E37_79B9_7F4A_7C15);
    z = (z ^ (z >> 30)).wrapping_mul(0xBF58_476D_1CE4_E5B9);
    z = (z ^ (z >> 27)).wrapping_mul(0x94D0_49BB_1331_11EB);
    z ^ (z >> 31)
}

pub fn hash_str(s: &str) -> u64 {
    let mut h: u64 = 0xcbf2_9ce4_8422_2325;
    for b in s.bytes() {
        h ^= u64::from(b);
        h = h.wrapping_mul(0x0000_0100_0000_01B3);
    }
    h
}

pub fn hash_bytes(s: &[u8]) -> u64 {
    let mut h: u64 = 0xcbf2_9ce4_8422_2325;
    for b in s {
        h ^= u64::from(*b);
        h = h.wrapping_mul(0x0000_0100_0000_01B3);
    }
    h
}

/// Seed of run `i` of engine `engine` under the global seed.
pub fn run_seed(global: u64, engine: &str, i: u64) -> u64 {
    splitmix64(global ^ hash_str(engine) ^ splitmix64(i.wrapping_add(0x5151)))
}

impl Rng {
    pub fn new(seed: u64) -> Self {
        let mut x = seed;
        let mut s = [0u64; 4];
        for v in &mut s {
            x = x.wrapping_add(0x9E37_79B9_7F4A_7C15);
            *v = splitmix64(x);
        }
        Rng { s }
    }

    /// Independent sub-stream: drawing from it never shifts the parent.
    pub fn sub(seed: u64, name: &str) -> Self {
        Rng::new(splitmix64(seed ^ hash_str(name)))
    }

    pub fn next_u64(&mut self) -> u64 {
        let result = self.s[1].wrapping_mul(5).rotate_left(7).wrapping_mul(9);
        let t = self.s[1] << 17;
        self.s[2] ^= self.s[0];
        self.s[3] ^= self.s[1];
        self.s[1] ^= self.s[2];
        self.s[0] ^= self.s[3];
        self.s[2] ^= t;
        self.s[3] = self.s[3].rotate_left(45);
        result
    }

    /// Uniform in 0..n (n > 0).
    pub fn below(&mut self, n: u64) -> u64 {
        debug_assert!(n > 0);
        self.next_u64() % n
    }

    pub fn usize(&mut self, n: usize) -> usize {
        self.below(n as u64) as usize
    }

    pub fn range(&mut self, lo: u64, hi_incl: u64) -> u64 {
        lo + self.below(hi_incl - lo + 1)
    }

    pub fn bool(&mut self) -> bool {
        self.next_u64() & 1 == 1
    }

    /// True with probability num/den.
    pub fn chance(&mut self, num: u64, den: u64) -> bool {
        self.below(den) < num
    }

    pub fn pick<'a, T>(&mut self, xs: &'a [T]) -> &'a T {
        &xs[self.usize(xs.len())]
    }

    pub fn weighted(&mut self, weights: &[u32]) -> usize {
        let total: u64 = weights.iter().map(|w| u64::from(*w)).sum();
        if total == 0 {
            return 0;
        }
        let mut x = self.below(total);
        for (i, w) in weights.iter().enumerate() {
            if x < u64::from(*w) {
                return i;
            }
            x -= u64::from(*w);
        }
        weights.len() - 1
    }

    pub fn shuffle<T>(&mut self, xs: &mut [T]) {
        for i in (1..xs.len()).rev() {
            let j = self.usize(i + 1);
            xs.swap(i, j);
        }
    }

    pub fn bytes(&mut self, n: usize) -> Vec<u8> {
        (0..n).map(|_| self.next_u64() as u8).collect()
    }
}
