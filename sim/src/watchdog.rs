//! Hang detector for worker processes. The code under test does a bounded amount of work per
//! simulated step (milliseconds); a step that makes no progress for minutes is the code under
//! test looping (e.g. walking a symlink cycle). The worker then aborts itself, and the driver
//! treats that like any other death of the process executing a history: it isolates the run
//! and reports it with a replay file. Only engines that call `tick` are watched.

use std::sync::atomic::{AtomicBool, AtomicU64, Ordering};

static TICKS: AtomicU64 = AtomicU64::new(0);
static STARTED: AtomicBool = AtomicBool::new(false);

pub fn limit_secs() -> u64 {
    std::env::var("VERIF_HANG_SECS").ok().and_then(|s| s.parse().ok()).unwrap_or(240)
}

/// One unit of progress (a simulated step began). Never draws randomness, never reads a clock.
pub fn tick() {
    TICKS.fetch_add(1, Ordering::Relaxed);
    if !STARTED.swap(true, Ordering::SeqCst) {
        let _ = std::thread::Builder::new().name("watchdog".into()).spawn(|| {
            let limit = limit_secs();
            let mut last = TICKS.load(Ordering::Relaxed);
            let mut idle = 0u64;
            loop {
                std::thread::sleep(std::time::Duration::from_secs(1));
                let now = TICKS.load(Ordering::Relaxed);
                if now == last {
                    idle += 1;
                    if idle >= limit {
                        eprintln!("WATCHDOG: simulated step {now} made no progress for {limit} s; aborting this worker");
                        std::process::abort();
                    }
                } else {
                    last = now;
                    idle = 0;
                }
            }
        });
    }
}

/// The worker finished its simulated steps (what follows is reporting).
pub fn disarm() {
    // keep ticking semantics simple: a finished worker exits right away; nothing to do
}
