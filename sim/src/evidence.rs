//! Evidence files: what a run of a check actually covered.

use crate::pool::out_root;
use serde_json::{Map, Value, json};

pub struct Evidence {
    pub property_id: String,
    pub tier: String,
    pub seed: u64,
    pub level: String,
    pub coverage: Map<String, Value>,
    pub assumptions: Vec<String>,
    pub wall_s: f64,
    pub violations: i64,
    pub extra: Map<String, Value>,
}

impl Evidence {
    pub fn new(property_id: &str, tier: &str, seed: u64, level: &str) -> Evidence {
        Evidence {
            property_id: property_id.into(),
            tier: tier.into(),
            seed,
            level: level.into(),
            coverage: Map::new(),
            assumptions: Vec::new(),
            wall_s: 0.0,
            violations: 0,
            extra: Map::new(),
        }
    }

    pub fn cov(&mut self, key: &str, v: Value) -> &mut Self {
        self.coverage.insert(key.into(), v);
        self
    }

    pub fn write(&self) -> std::io::Result<()> {
        let dir = out_root().join("evidence");
        std::fs::create_dir_all(&dir)?;
        let mut root = Map::new();
        root.insert("property_id".into(), json!(self.property_id));
        root.insert("tier".into(), json!(self.tier));
        root.insert("seed".into(), json!(self.seed));
        root.insert("level".into(), json!(self.level));
        root.insert("coverage".into(), Value::Object(self.coverage.clone()));
        root.insert("assumptions".into(), json!(self.assumptions));
        root.insert("wall_s".into(), json!(self.wall_s));
        root.insert("violations".into(), json!(self.violations));
        for (k, v) in &self.extra {
            root.insert(k.clone(), v.clone());
        }
        let text = serde_json::to_string_pretty(&Value::Object(root))?;
        std::fs::write(dir.join(format!("{}.json", self.property_id)), text + "\n")
    }
}

pub const REAL_COMPONENTS: &str = "real code: libcnb, libcnb-data, libcnb-common (and per engine libcnb-package, libcnb-cargo, libcnb-test, libherokubuildpack::{command,write}), Rust std, glibc, kernel tmpfs/pipes";
