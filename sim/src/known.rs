//! Known findings: genuine defects recorded rather than repaired. Read-only at run time.

use crate::pool::verif_root;
use serde::Deserialize;

#[derive(Debug, Deserialize, Clone)]
pub struct Finding {
    pub property: String,
    pub signature: String,
    pub description: String,
}

#[derive(Debug, Deserialize, Clone)]
pub struct Fixed {
    pub property: String,
    pub commit: String,
    pub what: String,
}

#[derive(Debug, Deserialize, Default, Clone)]
pub struct Known {
    #[serde(default)]
    pub findings: Vec<Finding>,
    #[serde(default)]
    pub fixed: Vec<Fixed>,
}

impl Known {
    pub fn load() -> Known {
        let path = verif_root().join("known_findings.json");
        match std::fs::read_to_string(&path) {
            Ok(s) => serde_json::from_str(&s).unwrap_or_else(|e| {
                eprintln!("HARNESS-ERROR: {} does not parse: {e}", path.display());
                std::process::exit(2);
            }),
            Err(_) => Known::default(),
        }
    }

    /// An open finding that lists exactly this violation shape.
    pub fn matches(&self, property: &str, signature: &str) -> Option<&Finding> {
        self.findings
            .iter()
            .find(|f| f.property == property && f.signature == signature)
    }
}
