//! In-process access to the LD_PRELOAD shim (looked up with dlsym; absent ⇒ harness error).

use std::ffi::{CStr, CString, c_char, c_int, c_long, c_uint, c_void};
use std::path::Path;

pub const MODE_COUNT: c_int = 0;
pub const MODE_ERROR: c_int = 1;
pub const MODE_CRASH: c_int = 2;

#[repr(C)]
#[derive(Clone, Copy, Debug)]
pub struct RawStats {
    pub matched: c_long,
    pub fired: c_long,
    pub fired_call: [c_char; 20],
    pub short_writes: c_long,
    pub eintrs: c_long,
    pub readdir_perms: c_long,
    pub per_kind: [c_long; 32],
}

#[derive(Clone, Debug, Default)]
pub struct Stats {
    pub matched: i64,
    pub fired: bool,
    pub fired_call: String,
    pub short_writes: i64,
    pub eintrs: i64,
    pub readdir_perms: i64,
    pub per_kind: Vec<(String, i64)>,
}

type BeginFn = unsafe extern "C" fn(*const c_char, c_long, c_int, c_int, u64, u64, c_uint);
type EndFn = unsafe extern "C" fn(*mut RawStats);
type RingFn = unsafe extern "C" fn(*mut c_char, c_long) -> c_long;
type RandFn = unsafe extern "C" fn(u64, c_int);
type KindFn = unsafe extern "C" fn(c_int) -> *const c_char;

#[derive(Clone, Copy)]
pub struct Shim {
    begin: BeginFn,
    end: EndFn,
    ring: RingFn,
    rand: RandFn,
    kind: KindFn,
}

fn sym(name: &str) -> *mut c_void {
    let c = CString::new(name).expect("symbol name");
    // SAFETY: dlsym with a valid NUL-terminated name.
    unsafe { libc::dlsym(libc::RTLD_DEFAULT, c.as_ptr()) }
}

#[derive(Clone, Debug)]
pub struct Fault {
    /// 1-based index of the matching call to fail; 0 = none
    pub at: i64,
    pub errno: i32,
    pub mode: c_int,
}

impl Fault {
    pub fn none() -> Fault {
        Fault {
            at: 0,
            errno: libc::EIO,
            mode: MODE_COUNT,
        }
    }
}

impl Shim {
    pub fn load() -> Option<Shim> {
        let b = sym("verif_shim_begin");
        let e = sym("verif_shim_end");
        let r = sym("verif_shim_ring");
        let s = sym("verif_shim_set_random");
        let k = sym("verif_shim_kind_name");
        if b.is_null() || e.is_null() || r.is_null() || s.is_null() || k.is_null() {
            return None;
        }
        // SAFETY: the symbols come from our own shim with exactly these signatures.
        unsafe {
            Some(Shim {
                begin: std::mem::transmute::<*mut c_void, BeginFn>(b),
                end: std::mem::transmute::<*mut c_void, EndFn>(e),
                ring: std::mem::transmute::<*mut c_void, RingFn>(r),
                rand: std::mem::transmute::<*mut c_void, RandFn>(s),
                kind: std::mem::transmute::<*mut c_void, KindFn>(k),
            })
        }
    }

    pub fn begin(&self, prefix: &Path, fault: &Fault, rdseed: u64, chaos_seed: u64, chaos_rate: u32) {
        use std::os::unix::ffi::OsStrExt;
        let c = CString::new(prefix.as_os_str().as_bytes()).expect("prefix");
        // SAFETY: valid pointers, shim copies the string.
        unsafe {
            (self.begin)(
                c.as_ptr(),
                fault.at as c_long,
                fault.errno,
                fault.mode,
                rdseed,
                chaos_seed,
                chaos_rate,
            );
        }
    }

    pub fn end(&self) -> Stats {
        let mut raw = RawStats {
            matched: 0,
            fired: 0,
            fired_call: [0; 20],
            short_writes: 0,
            eintrs: 0,
            readdir_perms: 0,
            per_kind: [0; 32],
        };
        // SAFETY: raw is a valid out-pointer of the layout the shim uses.
        unsafe { (self.end)(&mut raw) };
        let fired_call = {
            // SAFETY: NUL-terminated within the 20-byte array (shim uses strncpy(…, 19)).
            let c = unsafe { CStr::from_ptr(raw.fired_call.as_ptr()) };
            c.to_string_lossy().into_owned()
        };
        let mut per_kind = Vec::new();
        for k in 0..17 {
            // SAFETY: returns a static string or NULL.
            let p = unsafe { (self.kind)(k) };
            if p.is_null() {
                break;
            }
            // SAFETY: static NUL-terminated string.
            let name = unsafe { CStr::from_ptr(p) }.to_string_lossy().into_owned();
            per_kind.push((name, raw.per_kind[k as usize] as i64));
        }
        Stats {
            matched: raw.matched as i64,
            fired: raw.fired != 0,
            fired_call,
            short_writes: raw.short_writes as i64,
            eintrs: raw.eintrs as i64,
            readdir_perms: raw.readdir_perms as i64,
            per_kind,
        }
    }

    pub fn ring(&self) -> String {
        let mut buf = vec![0u8; 32 * 1024];
        // SAFETY: buffer pointer and length are valid.
        let n = unsafe { (self.ring)(buf.as_mut_ptr().cast::<c_char>(), buf.len() as c_long) };
        buf.truncate(n.max(0) as usize);
        String::from_utf8_lossy(&buf).into_owned()
    }

    /// Make `getrandom` (and thereby the hash keys of every thread started afterwards) a
    /// function of `seed`.
    pub fn set_random(&self, seed: u64, on: bool) {
        // SAFETY: plain value arguments.
        unsafe { (self.rand)(seed, c_int::from(on)) };
    }
}
