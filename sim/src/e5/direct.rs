//! Process-free run class of C19: `tee` and `mapped` driven directly with seeded byte strings
//! over {marker, other}, seeded chunkings into `write` calls, and sinks that answer with short
//! writes and `Interrupted`.

use super::model_mapped;
use crate::rng::{Rng, run_seed, splitmix64};
use libherokubuildpack::write::{mapped, tee};
use serde::{Deserialize, Serialize};
use std::collections::BTreeSet;
use std::io::{self, Write};
use std::sync::{Arc, Mutex};

#[derive(Clone, Debug, Serialize, Deserialize)]
pub struct DirectReplay {
    pub engine: String,
    pub property: String,
    pub seed: u64,
    pub kind: String,
    #[serde(with = "crate::hexbytes")]
    pub input: Vec<u8>,
    pub chunks: Vec<usize>,
    pub sink: Vec<u8>,
    pub finish_by_unwrap: bool,
    pub detail: Vec<String>,
    pub signature: String,
}

#[derive(Clone, Debug, Default, Serialize, Deserialize)]
pub struct DirectSummary {
    pub runs: u64,
    pub nontrivial: BTreeSet<u64>,
    pub short_writes: u64,
    pub interrupted: u64,
    pub violations: Vec<DirectReplay>,
}

impl DirectSummary {
    pub fn merge(&mut self, o: DirectSummary) {
        self.runs += o.runs;
        self.nontrivial.extend(o.nontrivial);
        self.short_writes += o.short_writes;
        self.interrupted += o.interrupted;
        if self.violations.len() < 3 {
            self.violations.extend(o.violations);
            self.violations.truncate(3);
        }
    }
}

/// Sink whose answers come from a decision list: 0 full, 1 one byte, 2 half, 3 Interrupted.
struct Sink {
    data: Arc<Mutex<Vec<u8>>>,
    decisions: Vec<u8>,
    pos: usize,
    shorts: Arc<Mutex<(u64, u64)>>,
    last_interrupted: bool,
    /// upper bound on what this sink accepts in total
    cap: usize,
}

impl Write for Sink {
    fn write(&mut self, buf: &[u8]) -> io::Result<usize> {
        let d = if self.decisions.is_empty() { 0 } else { self.decisions[self.pos % self.decisions.len()] };
        self.pos += 1;
        let n = match d {
            3 if !self.last_interrupted => {
                self.last_interrupted = true;
                self.shorts.lock().expect("stats").1 += 1;
                return Err(io::Error::from(io::ErrorKind::Interrupted));
            }
            1 if buf.len() > 1 => {
                self.shorts.lock().expect("stats").0 += 1;
                1
            }
            2 if buf.len() > 1 => {
                self.shorts.lock().expect("stats").0 += 1;
                buf.len() / 2
            }
            _ => buf.len(),
        };
        self.last_interrupted = false;
        let mut data = self.data.lock().expect("sink");
        if data.len() + n > self.cap {
            // far more than was ever fed in: code under test that duplicates data must not be
            // able to exhaust memory; the run ends with a write error and is reported
            return Err(io::Error::other("sink received far more bytes than were written"));
        }
        data.extend_from_slice(&buf[..n]);
        Ok(n)
    }
    fn flush(&mut self) -> io::Result<()> {
        Ok(())
    }
}

/// A sink that, like `Vec<u8>` or a file, takes every slice of a vectored write.
struct AllSink {
    data: Arc<Mutex<Vec<u8>>>,
    cap: usize,
}

impl Write for AllSink {
    fn write(&mut self, buf: &[u8]) -> io::Result<usize> {
        let mut d = self.data.lock().expect("sink");
        if d.len() + buf.len() > self.cap {
            return Err(io::Error::other("sink received far more bytes than were written"));
        }
        d.extend_from_slice(buf);
        Ok(buf.len())
    }
    fn write_vectored(&mut self, bufs: &[io::IoSlice<'_>]) -> io::Result<usize> {
        let mut n = 0;
        for b in bufs {
            n += self.write(b)?;
        }
        Ok(n)
    }
    fn flush(&mut self) -> io::Result<()> {
        Ok(())
    }
}

/// What `Write::write_all_vectored` does (unstable in std): repeat until every slice is written.
fn write_all_vectored(w: &mut dyn Write, slices: &[&[u8]]) -> io::Result<()> {
    let mut rest: Vec<&[u8]> = slices.iter().copied().filter(|s| !s.is_empty()).collect();
    let mut guard = 0usize;
    while !rest.is_empty() {
        guard += 1;
        if guard > 10_000_000 {
            return Err(io::Error::other("no progress"));
        }
        let io: Vec<io::IoSlice<'_>> = rest.iter().map(|s| io::IoSlice::new(s)).collect();
        let mut n = match w.write_vectored(&io) {
            Ok(0) => return Err(io::Error::from(io::ErrorKind::WriteZero)),
            Ok(n) => n,
            Err(e) if e.kind() == io::ErrorKind::Interrupted => continue,
            Err(e) => return Err(e),
        };
        while n > 0 && !rest.is_empty() {
            if n >= rest[0].len() {
                n -= rest[0].len();
                rest.remove(0);
            } else {
                rest[0] = &rest[0][n..];
                n = 0;
            }
        }
    }
    Ok(())
}

const MARKER: u8 = b'|';

/// bytes for messages: lossy text, cut to a readable length
fn show(b: &[u8]) -> String {
    if b.len() <= 160 {
        format!("{:?}", String::from_utf8_lossy(b))
    } else {
        format!("{:?}… ({} bytes)", String::from_utf8_lossy(&b[..160]), b.len())
    }
}

fn map_fn(seg: &[u8]) -> Vec<u8> {
    let mut o = b"[".to_vec();
    o.extend(seg.iter().map(u8::to_ascii_uppercase));
    o.push(b']');
    o
}

pub fn run_one(input: &[u8], chunks: &[usize], sink: &[u8], kind: &str, finish_by_unwrap: bool, stats: &Arc<Mutex<(u64, u64)>>) -> Vec<String> {
    let mk = |off: usize| {
        let data = Arc::new(Mutex::new(Vec::new()));
        (
            Sink {
                data: data.clone(),
                decisions: sink.to_vec(),
                pos: off,
                shorts: stats.clone(),
                last_interrupted: false,
                cap: 8 * input.len() + 4096,
            },
            data,
        )
    };
    let mut detail = Vec::new();
    let feed = |w: &mut dyn Write| -> io::Result<()> {
        let mut pos = 0;
        for c in chunks {
            let end = (pos + c).min(input.len());
            w.write_all(&input[pos..end])?;
            pos = end;
        }
        w.write_all(&input[pos..])
    };
    match kind {
        "tee" => {
            let (a, da) = mk(0);
            let (b, db) = mk(1);
            let mut t = tee(a, b);
            if let Err(e) = feed(&mut t) {
                detail.push(format!("tee write failed: {e}"));
            }
            drop(t);
            for (name, d) in [("first", da), ("second", db)] {
                let got = d.lock().expect("sink").clone();
                if got != input {
                    detail.push(format!("tee: {name} target got {} bytes {:?}, input was {} bytes {:?}", got.len(), show(&got), input.len(), show(input)));
                }
            }
        }
        "tee-vectored" => {
            // the caller uses write_vectored (several slices per call); one target takes all
            // slices of a call, the other only what a plain `write` takes
            let da = Arc::new(Mutex::new(Vec::new()));
            let a = AllSink { data: da.clone(), cap: 8 * input.len() + 4096 };
            let (b, db) = mk(1);
            let swapped = sink.first().is_some_and(|d| d % 2 == 1);
            let mut slices: Vec<&[u8]> = Vec::new();
            let mut pos = 0;
            for c in chunks {
                let end = (pos + c).min(input.len());
                slices.push(&input[pos..end]);
                pos = end;
            }
            slices.push(&input[pos..]);
            let res = if swapped {
                let mut t = tee(b, a);
                let r = write_all_vectored(&mut t, &slices);
                drop(t);
                r
            } else {
                let mut t = tee(a, b);
                let r = write_all_vectored(&mut t, &slices);
                drop(t);
                r
            };
            if let Err(e) = res {
                detail.push(format!("tee (vectored) write failed: {e}"));
            }
            for (name, d) in [("all-slices", da), ("plain", db)] {
                let got = d.lock().expect("sink").clone();
                if got != input {
                    detail.push(format!("tee (vectored writes): {name} target got {} bytes {:?}, input was {} bytes {:?}", got.len(), show(&got), input.len(), show(input)));
                }
            }
        }
        _ => {
            let (a, da) = mk(0);
            let mut m = mapped(a, MARKER, |v| map_fn(&v));
            if let Err(e) = feed(&mut m) {
                detail.push(format!("mapped write failed: {e}"));
            }
            if finish_by_unwrap {
                let _inner = m.unwrap();
            } else {
                drop(m);
            }
            let got = da.lock().expect("sink").clone();
            let want = model_mapped(input, MARKER, &map_fn);
            if got != want {
                detail.push(format!(
                    "mapped: inner writer received {:?}, expected {:?} for input {:?} split as {:?}",
                    show(&got),
                    show(&want),
                    show(input),
                    &chunks[..chunks.len().min(40)]
                ));
            }
        }
    }
    detail
}

pub fn run_many(global_seed: u64, base: u64, n: u64) -> DirectSummary {
    let mut sum = DirectSummary::default();
    let stats = Arc::new(Mutex::new((0u64, 0u64)));
    for i in 0..n {
        let seed = run_seed(global_seed, "e5-direct", base.wrapping_add(i));
        let mut r = Rng::new(seed);
        // one run in 500: a long input with (almost) no marker, i.e. segments far longer than
        // any buffer size somebody might pick (8 KiB, 64 KiB, 1 MiB)
        let long = r.chance(1, 500);
        let len = if long {
            *r.pick(&[9_000usize, 70_000, 1_100_000, 2_300_000])
        } else {
            match r.below(8) {
                0 => 0,
                1..=5 => r.usize(12),
                _ => r.usize(60),
            }
        };
        let density = 1 + r.below(5);
        // alphabet: the marker, ASCII, and bytes that are not valid UTF-8 on their own
        let other = |r: &mut Rng| *r.pick(&[b'a', b'b', b'c', 0xFF, 0xC3, 0x80, 0x00, b'\r', b'\n']);
        let mut input: Vec<u8> = if long {
            (0..len).map(|i| b"abcdefghijklmnopqrstuvwxyz\xff\xc3 "[(i * 5 + i / 97) % 29]).collect()
        } else {
            (0..len).map(|_| if r.below(6) < density { MARKER } else { other(&mut r) }).collect()
        };
        if long {
            for _ in 0..r.usize(3) {
                let at = r.usize(len);
                input[at] = MARKER;
            }
        }
        let mut chunks = Vec::new();
        let mut left = len;
        while left > 0 && r.chance(4, 5) {
            let c = if r.chance(1, 3) {
                0
            } else if long {
                1 + r.usize(left.min(len / 3 + 1))
            } else {
                1 + r.usize(left.min(7))
            };
            chunks.push(c);
            left -= c.min(left);
        }
        let sink: Vec<u8> = (0..r.usize(5)).map(|_| r.below(4) as u8).collect();
        let kind = match r.below(6) {
            0 => "tee",
            1 => "tee-vectored",
            _ => "mapped",
        };
        let finish_by_unwrap = r.bool();
        let detail = run_one(&input, &chunks, &sink, kind, finish_by_unwrap, &stats);
        sum.runs += 1;
        if chunks.len() >= 2 {
            let layout = input.iter().fold(0u64, |h, b| splitmix64(h ^ u64::from(*b == MARKER)));
            sum.nontrivial.insert(splitmix64(layout ^ (chunks.len() as u64) << 32 ^ crate::rng::hash_str(kind)));
        }
        if !detail.is_empty() && sum.violations.len() < 2 {
            let ends_with_marker = input.last() == Some(&MARKER);
            sum.violations.push(DirectReplay {
                engine: "e5-direct".into(),
                property: "C19".into(),
                seed,
                kind: kind.into(),
                signature: format!(
                    "C19:direct:{kind}:{}",
                    if kind == "mapped" {
                        if input.is_empty() { "empty-input" } else if ends_with_marker { "input-ends-with-marker" } else { "other" }
                    } else {
                        "content"
                    }
                ),
                input,
                chunks,
                sink,
                finish_by_unwrap,
                detail,
            });
        }
    }
    let st = stats.lock().expect("stats");
    sum.short_writes = st.0;
    sum.interrupted = st.1;
    sum
}
