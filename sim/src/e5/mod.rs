//! Engine E5 — lock-step stream/process simulator for C19.
//!
//! The real `CommandExt::{spawn_and_write_streams, output_and_write_streams}`, `tee`, `mapped`
//! run unmodified on a real `Command`. The simulator owns the schedule that matters — child
//! writes vs. consumer progress vs. pipe capacity: the child (`simchild`) only acts on commands
//! and writes with O_NONBLOCK; the two real copier threads park inside probe writers and are
//! released one at a time by the seeded scheduler.

pub mod direct;

use crate::evidence::Evidence;
use crate::known::Known;
use crate::pool::{self, PoolError};
use crate::rng::{Rng, run_seed, splitmix64};
use libherokubuildpack::command::CommandExt;
use libherokubuildpack::write::{line_mapped, tee};
use serde::{Deserialize, Serialize};
use serde_json::json;
use std::collections::{BTreeMap, BTreeSet};
use std::io::{self, BufRead, BufReader, Write};
use std::os::unix::net::{UnixListener, UnixStream};
use std::os::unix::process::ExitStatusExt;
use std::path::{Path, PathBuf};
use std::process::Command;
use std::sync::mpsc::{self, Receiver, RecvTimeoutError, Sender};
use std::sync::{Arc, Mutex};
use std::time::{Duration, Instant};

pub const CHUNK: usize = 8192;
pub const PREFIX: &[u8] = b"> ";

pub fn stream_byte(stream: u64, off: u64) -> u8 {
    let h = splitmix64(stream.wrapping_mul(0x1000_0001).wrapping_add(off));
    match h % 39 {
        0..=2 => b'\n',
        // children print whatever they like: bytes that are not valid UTF-8, NUL
        3 => 0xFF,
        4 => 0xC3,
        5 => 0x00,
        // carriage returns (progress output), sometimes right in front of a line feed
        6 | 7 => b'\r',
        _ => b'a' + ((h >> 8) % 26) as u8,
    }
}

pub fn stream_bytes(stream: u64, n: u64) -> Vec<u8> {
    (0..n).map(|i| stream_byte(stream, i)).collect()
}

#[derive(Clone, Copy, Debug, PartialEq, Eq, Serialize, Deserialize)]
pub enum Cmd {
    /// W fd n
    Write(u8, usize),
    Close(u8),
    Exit(i32),
    Kill(i32),
}

#[derive(Clone, Copy, Debug, PartialEq, Eq, Serialize, Deserialize)]
pub enum Stack {
    Plain,
    Tee,
    LineMapped,
    /// tee(line_mapped(a), b)
    Nested,
}

#[derive(Clone, Copy, Debug, PartialEq, Eq, Serialize, Deserialize)]
pub enum Dec {
    Full,
    /// accept this many bytes at most (at least one)
    Short(usize),
    Interrupted,
    /// hard writer error (fault class only)
    Error,
}

#[derive(Clone, Debug, PartialEq, Serialize, Deserialize)]
pub struct Scenario {
    pub output_api: bool,
    pub program: Vec<Cmd>,
    /// index 0: stdout, 1: stderr
    pub stacks: [Stack; 2],
    /// decisions of the outer probe writer per stream, consumed cyclically
    pub probe: [Vec<Dec>; 2],
    /// decisions of the innermost recorders (short writes / Interrupted), consumed cyclically
    pub inner: Vec<Dec>,
    pub sched_seed: u64,
    pub exit_code: i32,
}

fn fd_index(fd: u8) -> usize {
    usize::from(fd) - 1
}

// ------------------------------------------------------------------ writers handed to the API

#[derive(Debug)]
enum Ann {
    Chunk { s: usize, new: bool, len: usize },
    Finished { s: usize },
}

/// no scripted child writes more than a few pipe capacities per stream
const REC_CAP: usize = 64 << 20;

struct Rec {
    data: Arc<Mutex<Vec<u8>>>,
    decisions: Vec<Dec>,
    pos: usize,
    /// a writer may be interrupted, but not forever: never twice in a row
    last_interrupted: bool,
}

impl Write for Rec {
    fn write(&mut self, buf: &[u8]) -> io::Result<usize> {
        let d = if self.decisions.is_empty() {
            Dec::Full
        } else {
            let d = self.decisions[self.pos % self.decisions.len()];
            self.pos += 1;
            d
        };
        let n = match d {
            Dec::Interrupted if !self.last_interrupted => {
                self.last_interrupted = true;
                return Err(io::Error::from(io::ErrorKind::Interrupted));
            }
            Dec::Short(k) => k.clamp(1, buf.len().max(1)).min(buf.len()),
            _ => buf.len(),
        };
        self.last_interrupted = false;
        let mut data = self.data.lock().expect("rec");
        if data.len() + n > REC_CAP {
            // see direct.rs: duplicated data must not exhaust memory
            return Err(io::Error::other("recorder received far more bytes than any child writes"));
        }
        data.extend_from_slice(&buf[..n]);
        Ok(n)
    }
    fn flush(&mut self) -> io::Result<()> {
        Ok(())
    }
}

struct Probe<W: Write> {
    s: usize,
    inner: Option<W>,
    remaining: usize,
    ann: Sender<Ann>,
    go: Receiver<Dec>,
}

impl<W: Write> Write for Probe<W> {
    fn write(&mut self, buf: &[u8]) -> io::Result<usize> {
        if buf.is_empty() {
            return Ok(0);
        }
        let new = self.remaining == 0;
        if new {
            self.remaining = buf.len();
        }
        let _ = self.ann.send(Ann::Chunk {
            s: self.s,
            new,
            len: buf.len(),
        });
        // parked until the scheduler says go
        let dec = self.go.recv().unwrap_or(Dec::Full);
        let inner = self.inner.as_mut().expect("probe inner");
        match dec {
            Dec::Full => {
                inner.write_all(buf)?;
                self.remaining = self.remaining.saturating_sub(buf.len());
                Ok(buf.len())
            }
            Dec::Short(k) => {
                let n = k.clamp(1, buf.len());
                inner.write_all(&buf[..n])?;
                self.remaining = self.remaining.saturating_sub(n);
                Ok(n)
            }
            Dec::Interrupted => Err(io::Error::from(io::ErrorKind::Interrupted)),
            Dec::Error => Err(io::Error::other("injected writer error")),
        }
    }
    fn flush(&mut self) -> io::Result<()> {
        self.inner.as_mut().expect("probe inner").flush()
    }
}

impl<W: Write> Drop for Probe<W> {
    fn drop(&mut self) {
        // drop the stack first (flushes a mapped writer's remainder), then tell the scheduler
        self.inner = None;
        let _ = self.ann.send(Ann::Finished { s: self.s });
    }
}

#[derive(Default, Clone)]
pub struct Recorded {
    pub a: Arc<Mutex<Vec<u8>>>,
    pub b: Arc<Mutex<Vec<u8>>>,
}

fn build_stack(
    stack: Stack,
    s: usize,
    rec: &Recorded,
    inner: &[Dec],
    ann: Sender<Ann>,
    go: Receiver<Dec>,
) -> Box<dyn Write + Send> {
    let ra = Rec {
        data: rec.a.clone(),
        decisions: inner.to_vec(),
        pos: s,
        last_interrupted: false,
    };
    let rb = Rec {
        data: rec.b.clone(),
        decisions: inner.to_vec(),
        pos: s + 1,
        last_interrupted: false,
    };
    let map = |mut v: Vec<u8>| {
        let mut o = PREFIX.to_vec();
        o.append(&mut v);
        o
    };
    macro_rules! probe {
        ($w:expr) => {
            Box::new(Probe {
                s,
                inner: Some($w),
                remaining: 0,
                ann,
                go,
            })
        };
    }
    match stack {
        Stack::Plain => probe!(ra),
        Stack::Tee => probe!(tee(ra, rb)),
        Stack::LineMapped => probe!(line_mapped(ra, map)),
        Stack::Nested => probe!(tee(line_mapped(ra, map), rb)),
    }
}

/// Reference model of the marker-splitting mapped writer: the mapping of every
/// marker-terminated segment and of the non-empty remainder.
pub fn model_mapped(input: &[u8], marker: u8, f: &dyn Fn(&[u8]) -> Vec<u8>) -> Vec<u8> {
    let mut out = Vec::new();
    let mut start = 0;
    for (i, b) in input.iter().enumerate() {
        if *b == marker {
            out.extend(f(&input[start..=i]));
            start = i + 1;
        }
    }
    if start < input.len() {
        out.extend(f(&input[start..]));
    }
    out
}

fn prefix_map(seg: &[u8]) -> Vec<u8> {
    let mut o = PREFIX.to_vec();
    o.extend_from_slice(seg);
    o
}

// ------------------------------------------------------------------ the lock-step scheduler

#[derive(Clone, Copy, Debug, PartialEq, Eq)]
enum Cop {
    Idle,
    Parked { len: usize },
    Finished,
}

pub struct CallResult {
    pub ok: bool,
    pub error: String,
    pub code: Option<i32>,
    pub signal: Option<i32>,
    pub stdout: Vec<u8>,
    pub stderr: Vec<u8>,
}

#[derive(Default, Debug, Clone, Serialize, Deserialize)]
pub struct RunOutcome {
    pub violation: Option<String>,
    pub detail: Vec<String>,
    pub events: Vec<String>,
    pub lenient: bool,
    pub probes: BTreeMap<String, u64>,
    pub kinds: String,
    pub harness_error: Option<String>,
}

pub fn simchild_path() -> PathBuf {
    std::env::var_os("VERIF_SIMCHILD").map_or_else(
        || pool::self_exe().parent().map_or_else(|| PathBuf::from("simchild"), |p| p.join("simchild")),
        PathBuf::from,
    )
}

struct Sched<'a> {
    sc: &'a Scenario,
    rng: Rng,
    pipe: [usize; 2],
    cop: [Cop; 2],
    closed: [bool; 2],
    reader_gone: [bool; 2],
    accepted: [u64; 2],
    errored: [bool; 2],
    probe_pos: [usize; 2],
    pc: usize,
    blocked: Option<usize>,
    lenient: bool,
    events: Vec<String>,
    probes: BTreeMap<String, u64>,
    ann_rx: Receiver<Ann>,
    go_tx: [Sender<Dec>; 2],
    child_in: BufReader<UnixStream>,
    child_out: UnixStream,
    grace: Duration,
    watchdog: Duration,
    /// remainder of a child write that was only partly accepted (a real child would block)
    pending_rest: Option<usize>,
    /// tiny short writes are interesting a few times, not 100 000 times per run
    tiny_short_budget: u32,
    last_interrupted: [bool; 2],
}

impl Sched<'_> {
    fn probe(&mut self, name: &str) {
        *self.probes.entry(name.to_string()).or_insert(0) += 1;
    }

    fn apply(&mut self, a: &Ann) {
        match a {
            Ann::Chunk { s, new, len } => {
                if *new {
                    if self.pipe[*s] < *len {
                        // more than we accounted for: the schedule model lost track
                        self.lenient = true;
                        self.pipe[*s] = 0;
                    } else {
                        self.pipe[*s] -= len;
                    }
                    if self.blocked == Some(*s) {
                        self.blocked = None;
                    }
                }
                self.cop[*s] = Cop::Parked { len: *len };
                self.events.push(format!("ann chunk s{s} new={new} len={len}"));
            }
            Ann::Finished { s } => {
                if self.blocked == Some(*s) {
                    // the read end is gone: a blocked writer is released with EPIPE
                    self.blocked = None;
                }
                self.cop[*s] = Cop::Finished;
                self.events.push(format!("ann finished s{s}"));
            }
        }
    }

    /// Eager mode: wait for exactly the announcement the current implementation produces next.
    fn expect(&mut self, what: &str, pred: &dyn Fn(&Ann) -> bool) {
        if self.lenient {
            return;
        }
        match self.ann_rx.recv_timeout(self.grace) {
            Ok(a) => {
                let ok = pred(&a);
                self.apply(&a);
                if !ok {
                    self.events.push(format!("unexpected announcement while waiting for {what}: lenient from here"));
                    self.lenient = true;
                }
            }
            Err(_) => {
                // Not a violation: eagerness is not in the property. Judge by safety + deadlock.
                self.events.push(format!("no {what} within grace: lenient from here"));
                self.lenient = true;
            }
        }
    }

    /// After an action that wakes both copiers at once (child exit/kill) their announcements
    /// may arrive in either order: wait for both, then record them in stream order.
    fn after_both_closed(&mut self) {
        let mut want: Vec<(usize, bool, usize)> = Vec::new(); // (stream, is_finish, len)
        for s in 0..2 {
            if self.cop[s] != Cop::Idle {
                continue;
            }
            if self.pipe[s] > 0 {
                want.push((s, false, self.pipe[s].min(CHUNK)));
            } else if self.closed[s] {
                want.push((s, true, 0));
            }
        }
        if self.lenient || want.is_empty() {
            return;
        }
        let mut got: Vec<Ann> = Vec::new();
        while got.len() < want.len() {
            match self.ann_rx.recv_timeout(self.grace) {
                Ok(a) => got.push(a),
                Err(_) => {
                    self.events.push("announcements after child end missing within grace: lenient from here".into());
                    self.lenient = true;
                    break;
                }
            }
        }
        let stream_of = |a: &Ann| match a {
            Ann::Chunk { s, .. } | Ann::Finished { s } => *s,
        };
        got.sort_by_key(stream_of);
        for a in &got {
            let ok = want.iter().any(|(s, fin, len)| match a {
                Ann::Chunk { s: ss, new: true, len: l } => !fin && ss == s && l == len,
                Ann::Finished { s: ss } => *fin && ss == s,
                Ann::Chunk { .. } => false,
            });
            self.apply(a);
            if !ok {
                self.events.push("unexpected announcement after child end: lenient from here".into());
                self.lenient = true;
            }
        }
    }

    fn drain(&mut self) {
        while let Ok(a) = self.ann_rx.try_recv() {
            self.apply(&a);
        }
    }

    fn after_pipe_change(&mut self, s: usize) {
        // what the copier of stream s does now, if it is idle
        if self.cop[s] != Cop::Idle {
            return;
        }
        if self.pipe[s] > 0 {
            let want = self.pipe[s].min(CHUNK);
            self.expect("chunk", &move |a| matches!(a, Ann::Chunk { s: ss, new: true, len } if *ss == s && *len == want));
        } else if self.closed[s] {
            self.expect("finish", &move |a| matches!(a, Ann::Finished { s: ss } if *ss == s));
        }
    }

    fn child_cmd(&mut self, line: &str) -> Result<String, String> {
        writeln!(self.child_out, "{line}").map_err(|e| format!("child socket: {e}"))?;
        let mut reply = String::new();
        self.child_in.read_line(&mut reply).map_err(|e| format!("child socket: {e}"))?;
        Ok(reply.trim().to_string())
    }

    fn child_step(&mut self) -> Result<(), String> {
        let cmd = self.sc.program[self.pc];
        match cmd {
            Cmd::Write(fd, n) => {
                let s = fd_index(fd);
                if self.closed[s] {
                    self.pc += 1;
                    return Ok(());
                }
                let reply = self.child_cmd(&format!("W {fd} {n}"))?;
                if let Some(a) = reply.strip_prefix("A ") {
                    let a: usize = a.parse().map_err(|_| "bad reply".to_string())?;
                    self.accepted[s] += a as u64;
                    self.pipe[s] += a;
                    self.events.push(format!("child W s{s} {n} -> {a}"));
                    if a < n {
                        self.probe("pipe_full_partial_write");
                        // the rest of this write is still due: a real child would block
                        self.blocked = Some(s);
                        // shrink the pending write instead of advancing
                        self.pending_rest = Some(n - a);
                    } else {
                        self.pending_rest = None;
                        self.pc += 1;
                    }
                    self.after_pipe_change(s);
                } else if reply == "E" {
                    self.probe("pipe_full_eagain");
                    self.events.push(format!("child W s{s} {n} -> EAGAIN"));
                    self.blocked = Some(s);
                } else {
                    // reader gone (EPIPE): a real child would get SIGPIPE/EPIPE and move on
                    self.events.push(format!("child W s{s} {n} -> EPIPE"));
                    self.reader_gone[s] = true;
                    self.pending_rest = None;
                    self.pc += 1;
                }
            }
            Cmd::Close(fd) => {
                let s = fd_index(fd);
                self.child_cmd(&format!("C {fd}"))?;
                self.events.push(format!("child C s{s}"));
                self.closed[s] = true;
                self.pc += 1;
                self.after_pipe_change(s);
            }
            Cmd::Exit(code) => {
                self.child_cmd(&format!("X {code}"))?;
                self.events.push(format!("child X {code}"));
                if self.pipe[0] + self.pipe[1] > 0 {
                    self.probe("exit_with_unread_data");
                }
                self.pc = self.sc.program.len();
                for s in 0..2 {
                    self.closed[s] = true;
                }
                self.after_both_closed();
            }
            Cmd::Kill(sig) => {
                self.child_cmd(&format!("K {sig}"))?;
                self.events.push(format!("child K {sig}"));
                if self.pipe[0] + self.pipe[1] > 0 {
                    self.probe("killed_with_unread_data");
                }
                self.pc = self.sc.program.len();
                for s in 0..2 {
                    self.closed[s] = true;
                }
                self.after_both_closed();
            }
        }
        Ok(())
    }

    fn release(&mut self, s: usize) {
        let Cop::Parked { len } = self.cop[s] else { return };
        let list = &self.sc.probe[s];
        let dec = if list.is_empty() {
            Dec::Full
        } else {
            let d = list[self.probe_pos[s] % list.len()];
            self.probe_pos[s] += 1;
            d
        };
        let dec = match dec {
            Dec::Short(k) if k < 512 && len > 2 * k => {
                if self.tiny_short_budget == 0 {
                    Dec::Full
                } else {
                    self.tiny_short_budget -= 1;
                    dec
                }
            }
            d => d,
        };
        // a writer may report Interrupted, but not forever: never twice in a row
        let dec = if dec == Dec::Interrupted && self.last_interrupted[s] { Dec::Full } else { dec };
        self.last_interrupted[s] = dec == Dec::Interrupted;
        self.events.push(format!("release s{s} {dec:?}"));
        // the copier is running again until its next announcement
        self.cop[s] = Cop::Idle;
        let _ = self.go_tx[s].send(dec);
        match dec {
            Dec::Full => self.after_pipe_change(s),
            Dec::Short(k) => {
                let n = k.clamp(1, len);
                if n < len {
                    let rest = len - n;
                    self.expect("continuation", &move |a| matches!(a, Ann::Chunk { s: ss, new: false, len } if *ss == s && *len == rest));
                } else {
                    self.after_pipe_change(s);
                }
            }
            Dec::Interrupted => {
                self.probe("writer_interrupted");
                self.expect("retry", &move |a| matches!(a, Ann::Chunk { s: ss, new: false, len: l } if *ss == s && *l == len));
            }
            Dec::Error => {
                self.probe("writer_hard_error");
                self.errored[s] = true;
                self.expect("finish after error", &move |a| matches!(a, Ann::Finished { s: ss } if *ss == s));
            }
        }
    }
}

/// Run one scenario against the real API. Eager mode makes the event log a pure function of
/// the seed; a missing announcement only switches to lenient mode (never a violation).
pub fn run_scenario(sc: &Scenario, scratch: &Path, grace_ms: u64, watchdog_ms: u64) -> RunOutcome {
    let mut out = RunOutcome::default();
    let sock = scratch.join(format!("e5-{:x}.sock", sc.sched_seed & 0xffff_ffff));
    let _ = std::fs::remove_file(&sock);
    let listener = match UnixListener::bind(&sock) {
        Ok(l) => l,
        Err(e) => {
            out.harness_error = Some(format!("bind {}: {e}", sock.display()));
            return out;
        }
    };
    let (ann_tx, ann_rx) = mpsc::channel::<Ann>();
    let (go0_tx, go0_rx) = mpsc::channel::<Dec>();
    let (go1_tx, go1_rx) = mpsc::channel::<Dec>();
    let rec = [Recorded::default(), Recorded::default()];
    let w_out = build_stack(sc.stacks[0], 0, &rec[0], &sc.inner, ann_tx.clone(), go0_rx);
    let w_err = build_stack(sc.stacks[1], 1, &rec[1], &sc.inner, ann_tx.clone(), go1_rx);
    drop(ann_tx);
    let (res_tx, res_rx) = mpsc::channel::<CallResult>();
    let (exit_tx, exit_rx) = mpsc::channel::<()>();
    let output_api = sc.output_api;
    let child_path = simchild_path();
    let sock2 = sock.clone();
    let call = std::thread::Builder::new()
        .name("e5-call".into())
        .spawn(move || {
            let mut cmd = Command::new(child_path);
            cmd.arg(&sock2).stdin(std::process::Stdio::null());
            let r = if output_api {
                match cmd.output_and_write_streams(w_out, w_err) {
                    Ok(o) => CallResult {
                        ok: true,
                        error: String::new(),
                        code: o.status.code(),
                        signal: o.status.signal(),
                        stdout: o.stdout,
                        stderr: o.stderr,
                    },
                    Err(e) => CallResult {
                        ok: false,
                        error: e.to_string(),
                        code: None,
                        signal: None,
                        stdout: Vec::new(),
                        stderr: Vec::new(),
                    },
                }
            } else {
                match cmd.spawn_and_write_streams(w_out, w_err) {
                    Ok(mut child) => {
                        // report "returned while the child may still be alive", then reap it
                        let alive = matches!(child.try_wait(), Ok(None));
                        let _ = res_tx.send(CallResult {
                            ok: true,
                            error: if alive { "alive".into() } else { "already-exited".into() },
                            code: None,
                            signal: None,
                            stdout: Vec::new(),
                            stderr: Vec::new(),
                        });
                        let _ = exit_rx.recv_timeout(Duration::from_secs(30));
                        let st = child.wait();
                        CallResult {
                            ok: st.is_ok(),
                            error: "reaped".into(),
                            code: st.as_ref().ok().and_then(std::process::ExitStatus::code),
                            signal: st.as_ref().ok().and_then(ExitStatusExt::signal),
                            stdout: Vec::new(),
                            stderr: Vec::new(),
                        }
                    }
                    Err(e) => CallResult {
                        ok: false,
                        error: e.to_string(),
                        code: None,
                        signal: None,
                        stdout: Vec::new(),
                        stderr: Vec::new(),
                    },
                }
            };
            let _ = res_tx.send(r);
        });
    if let Err(e) = call {
        out.harness_error = Some(format!("spawn call thread: {e}"));
        return out;
    }
    // the child connects as its first action
    let _ = listener.set_nonblocking(true);
    let start = Instant::now();
    let stream = loop {
        match listener.accept() {
            Ok((s, _)) => break s,
            Err(_) if start.elapsed() < Duration::from_secs(20) => std::thread::sleep(Duration::from_millis(1)),
            Err(e) => {
                out.harness_error = Some(format!("child never connected: {e}"));
                return out;
            }
        }
    };
    let _ = stream.set_nonblocking(false);
    let _ = stream.set_read_timeout(Some(Duration::from_secs(20)));
    let child_out = stream.try_clone().expect("clone socket");
    let mut sch = Sched {
            sc,
            rng: Rng::new(sc.sched_seed),
            pipe: [0; 2],
            cop: [Cop::Idle; 2],
            closed: [false; 2],
            reader_gone: [false; 2],
            accepted: [0; 2],
            errored: [false; 2],
            probe_pos: [0; 2],
            pc: 0,
            blocked: None,
            lenient: false,
            events: Vec::new(),
            probes: BTreeMap::new(),
            ann_rx,
            go_tx: [go0_tx, go1_tx],
            child_in: BufReader::new(stream),
            child_out,
            grace: Duration::from_millis(grace_ms),
            watchdog: Duration::from_millis(watchdog_ms),
            pending_rest: None,
            tiny_short_budget: 48,
            last_interrupted: [false; 2],
    };
    let verdict = sch.drive(&res_rx, &exit_tx, &rec);
    let s = sch;
    out.events = s.events;
    out.lenient = s.lenient;
    out.probes = s.probes;
    if s.lenient {
        *out.probes.entry("lenient_mode_runs".into()).or_insert(0) += 1;
    }
    match verdict {
        Ok(()) => {}
        Err(Verdict::Harness(e)) => out.harness_error = Some(e),
        Err(Verdict::Violation(kind, detail)) => {
            out.violation = Some(kind);
            out.detail = detail;
        }
    }
    let _ = std::fs::remove_file(&sock);
    out
}

/// Is any thread of this process other than the caller runnable or running right now?
fn other_thread_runnable() -> bool {
    // SAFETY: gettid has no preconditions.
    let me = unsafe { libc::syscall(libc::SYS_gettid) } as i64;
    let Ok(rd) = std::fs::read_dir("/proc/self/task") else { return false };
    for e in rd.flatten() {
        let tid: i64 = e.file_name().to_string_lossy().parse().unwrap_or(0);
        if tid == me {
            continue;
        }
        if let Ok(stat) = std::fs::read_to_string(e.path().join("stat")) {
            // pid (comm) state ...; comm may contain spaces, the state follows the last ')'
            if let Some(state) = stat.rsplit(')').next().and_then(|r| r.trim_start().chars().next()) {
                if state == 'R' || state == 'D' {
                    return true;
                }
            }
        }
    }
    false
}

enum Verdict {
    Harness(String),
    Violation(String, Vec<String>),
}

impl Sched<'_> {
    fn drive(&mut self, res_rx: &Receiver<CallResult>, exit_tx: &Sender<()>, rec: &[Recorded; 2]) -> Result<(), Verdict> {
        let started = Instant::now();
        let mut steps = 0u64;
        loop {
            steps += 1;
            if steps > 1_000_000 || started.elapsed() > Duration::from_secs(120) {
                return Err(Verdict::Harness(format!(
                    "scheduler exceeded its step/time bound: pc={} blocked={:?} pending={:?} pipe={:?} cop={:?} closed={:?}",
                    self.pc, self.blocked, self.pending_rest, self.pipe, self.cop, self.closed
                )));
            }
            if self.lenient {
                self.drain();
            }
            // a blocked child write becomes possible again once its pipe has room
            let mut enabled: Vec<u8> = Vec::new(); // 0: child step, 1: release s0, 2: release s1
            let program_done = self.pc >= self.sc.program.len();
            if !program_done {
                let blocked_now = match (self.blocked, self.sc.program[self.pc]) {
                    (Some(s), Cmd::Write(fd, _)) if fd_index(fd) == s => !self.reader_gone[s],
                    _ => false,
                };
                if !blocked_now {
                    enabled.push(0);
                }
            }
            for s in 0..2 {
                if matches!(self.cop[s], Cop::Parked { .. }) {
                    enabled.push(1 + s as u8);
                }
            }
            if enabled.is_empty() {
                let all_finished = self.cop.iter().all(|c| *c == Cop::Finished);
                if program_done && all_finished {
                    break;
                }
                // nothing to schedule: either the implementation is still working (lenient) or
                // this is a true deadlock / missing return
                match self.ann_rx.recv_timeout(self.watchdog) {
                    Ok(a) => {
                        self.lenient = true;
                        self.apply(&a);
                        continue;
                    }
                    Err(RecvTimeoutError::Timeout) => {
                        // Starvation is not deadlock: as long as any other thread of this process
                        // is runnable (state R) the consumer may simply not have been scheduled.
                        if other_thread_runnable() && started.elapsed() < Duration::from_secs(110) {
                            self.events.push("watchdog: a consumer thread is runnable, waiting on".into());
                            self.lenient = true;
                            continue;
                        }
                        if !program_done {
                            let Cmd::Write(fd, n) = self.sc.program[self.pc] else {
                                return Err(Verdict::Harness("blocked on a non-write".into()));
                            };
                            return Err(Verdict::Violation(
                                "deadlock".into(),
                                vec![format!(
                                    "child is blocked writing {n} bytes to fd {fd} (pipe full), no copier is parked by the scheduler and no consumer progress for {:?}; pipes hold {:?} bytes, copiers {:?}",
                                    self.watchdog, self.pipe, self.cop
                                )],
                            ));
                        }
                        return Err(Verdict::Violation(
                            "streams-not-drained".into(),
                            vec![format!(
                                "the child closed both streams but the copiers did not finish within {:?}: pipes hold {:?} bytes, copiers {:?}",
                                self.watchdog, self.pipe, self.cop
                            )],
                        ));
                    }
                    Err(RecvTimeoutError::Disconnected) => {
                        // both probes dropped without our bookkeeping noticing
                        self.lenient = true;
                        for s in 0..2 {
                            self.cop[s] = Cop::Finished;
                        }
                        if program_done {
                            break;
                        }
                        continue;
                    }
                }
            }
            let pick = enabled[self.rng.usize(enabled.len())];
            if matches!(self.cop, [Cop::Parked { .. }, Cop::Parked { .. }]) {
                self.probe("both_copiers_parked");
            }
            match pick {
                0 => {
                    // a pending partial write continues with its remainder
                    if let (Some(rest), Cmd::Write(fd, _)) = (self.pending_rest, self.sc.program[self.pc]) {
                        let saved = self.sc.program[self.pc];
                        let _ = saved;
                        self.step_write_rest(fd, rest).map_err(Verdict::Harness)?;
                    } else {
                        self.child_step().map_err(Verdict::Harness)?;
                    }
                }
                1 => self.release(0),
                _ => self.release(1),
            }
        }
        // ---- everything closed and consumed: the call must return
        let first = res_rx.recv_timeout(self.watchdog).map_err(|_| {
            Verdict::Violation(
                "no-return".into(),
                vec!["both streams are closed and fully consumed but the call did not return".into()],
            )
        })?;
        let result = if self.sc.output_api {
            first
        } else {
            if first.ok && first.error == "already-exited" {
                self.probe("spawn_returned_after_exit");
            }
            if !first.ok {
                first
            } else {
                // the child is still alive here (its program ended with closes); let it exit
                let code = self.sc.exit_code;
                let _ = self.child_cmd(&format!("X {code}"));
                let _ = exit_tx.send(());
                res_rx
                    .recv_timeout(Duration::from_secs(20))
                    .map_err(|_| Verdict::Harness("child was not reaped".into()))?
            }
        };
        self.judge(&result, rec)
    }

    fn step_write_rest(&mut self, fd: u8, rest: usize) -> Result<(), String> {
        let s = fd_index(fd);
        let reply = self.child_cmd(&format!("W {fd} {rest}"))?;
        if let Some(a) = reply.strip_prefix("A ") {
            let a: usize = a.parse().map_err(|_| "bad reply".to_string())?;
            self.accepted[s] += a as u64;
            self.pipe[s] += a;
            self.events.push(format!("child W(rest) s{s} {rest} -> {a}"));
            if a < rest {
                self.pending_rest = Some(rest - a);
                self.blocked = Some(s);
            } else {
                self.pending_rest = None;
                self.pc += 1;
            }
            self.after_pipe_change(s);
        } else if reply == "E" {
            self.events.push(format!("child W(rest) s{s} {rest} -> EAGAIN"));
            self.probe("pipe_full_eagain");
            self.blocked = Some(s);
        } else {
            self.events.push(format!("child W(rest) s{s} -> EPIPE"));
            self.reader_gone[s] = true;
            self.pending_rest = None;
            self.pc += 1;
        }
        Ok(())
    }

    fn judge(&mut self, r: &CallResult, rec: &[Recorded; 2]) -> Result<(), Verdict> {
        let mut d: Vec<String> = Vec::new();
        let any_error = self.errored.iter().any(|e| *e);
        let expected: [Vec<u8>; 2] = [stream_bytes(1, self.accepted[0]), stream_bytes(2, self.accepted[1])];
        if any_error {
            if r.ok && self.sc.output_api {
                d.push("a writer returned a hard error but the call reported success".into());
            }
        } else {
            if !r.ok {
                d.push(format!("the call failed although no writer failed: {}", r.error));
            }
            if self.sc.output_api && r.ok {
                if r.stdout != expected[0] {
                    d.push(diff_bytes("returned stdout", &r.stdout, &expected[0]));
                }
                if r.stderr != expected[1] {
                    d.push(diff_bytes("returned stderr", &r.stderr, &expected[1]));
                }
            }
        }
        for s in 0..2 {
            let name = if s == 0 { "stdout" } else { "stderr" };
            let a = rec[s].a.lock().expect("rec").clone();
            let b = rec[s].b.lock().expect("rec").clone();
            let mapped = model_mapped(&expected[s], b'\n', &prefix_map);
            let (want_a, want_b): (&[u8], Option<&[u8]>) = match self.sc.stacks[s] {
                Stack::Plain => (&expected[s], None),
                Stack::Tee => (&expected[s], Some(&expected[s])),
                Stack::LineMapped => (&mapped, None),
                Stack::Nested => (&mapped, Some(&expected[s])),
            };
            if self.errored[s] {
                // after a writer error only "a prefix" is promised
                let raw_prefix = |got: &[u8], want: &[u8]| want.starts_with(got);
                if matches!(self.sc.stacks[s], Stack::Plain | Stack::Tee) && !raw_prefix(&a, want_a) {
                    d.push(format!("{name}: data delivered before the writer error is not a prefix of what the child wrote"));
                }
                continue;
            }
            if a != want_a {
                d.push(diff_bytes(&format!("{name} writer"), &a, want_a));
            }
            if let Some(wb) = want_b {
                if b != wb {
                    d.push(diff_bytes(&format!("{name} second tee target"), &b, wb));
                }
            }
        }
        if !any_error && r.ok {
            match self.sc.program.last() {
                Some(Cmd::Kill(sig)) => {
                    if r.signal != Some(*sig) {
                        d.push(format!("status: expected death by signal {sig}, got code {:?} signal {:?}", r.code, r.signal));
                    }
                }
                _ => {
                    if r.code != Some(self.sc.exit_code) {
                        d.push(format!("status: expected exit code {}, got code {:?} signal {:?}", self.sc.exit_code, r.code, r.signal));
                    }
                }
            }
        }
        if d.is_empty() {
            Ok(())
        } else {
            Err(Verdict::Violation("stream-content".into(), d))
        }
    }
}

fn diff_bytes(what: &str, got: &[u8], want: &[u8]) -> String {
    let common = got.iter().zip(want).take_while(|(a, b)| a == b).count();
    format!(
        "{what}: got {} bytes, the child wrote {} bytes; first difference at offset {common} (got {:?}, expected {:?})",
        got.len(),
        want.len(),
        got.get(common..(common + 12).min(got.len())).map(|b| String::from_utf8_lossy(b).into_owned()),
        want.get(common..(common + 12).min(want.len())).map(|b| String::from_utf8_lossy(b).into_owned()),
    )
}

// ------------------------------------------------------------------ generation

pub fn generate(seed: u64, faults: bool) -> Scenario {
    let mut r = Rng::sub(seed, "e5");
    let output_api = r.chance(2, 3);
    let pipe = 65_536usize;
    let profile = r.below(6);
    let nsteps = 1 + r.usize(10);
    let mut program: Vec<Cmd> = Vec::new();
    let size = |r: &mut Rng| -> usize {
        match r.below(10) {
            0 => 0,
            1 | 2 => 1 + r.usize(200),
            3 | 4 => CHUNK - 2 + r.usize(5),
            5 => pipe - 1 + r.usize(3),
            6 | 7 => pipe / 2 + r.usize(pipe),
            8 => pipe * 2 + r.usize(pipe * 2),
            _ => 1 + r.usize(3 * CHUNK),
        }
    };
    match profile {
        0 => {
            // one stream first, then the other
            let first = 1 + r.below(2) as u8;
            for _ in 0..nsteps {
                program.push(Cmd::Write(first, size(&mut r)));
            }
            for _ in 0..nsteps {
                program.push(Cmd::Write(3 - first, size(&mut r)));
            }
        }
        1 => {
            for i in 0..2 * nsteps {
                program.push(Cmd::Write(1 + (i % 2) as u8, size(&mut r)));
            }
        }
        2 => {
            // fill both pipes at once
            program.push(Cmd::Write(1, pipe * 2));
            program.push(Cmd::Write(2, pipe * 2));
            for _ in 0..nsteps {
                program.push(Cmd::Write(1 + r.below(2) as u8, size(&mut r)));
            }
        }
        3 => {
            // only stderr (stdout stays silent and open)
            for _ in 0..nsteps {
                program.push(Cmd::Write(2, size(&mut r)));
            }
        }
        4 => {} // empty streams
        _ => {
            for _ in 0..2 * nsteps {
                program.push(Cmd::Write(1 + r.below(2) as u8, size(&mut r)));
            }
        }
    }
    // closing order and the end of the child
    let exit_code = *r.pick(&[0, 1, 3, 42, 255]);
    if output_api {
        match r.below(5) {
            0 => {
                program.push(Cmd::Close(1));
                program.push(Cmd::Close(2));
                program.push(Cmd::Exit(exit_code));
            }
            1 => {
                program.push(Cmd::Close(2));
                let extra = size(&mut r);
                program.push(Cmd::Write(1, extra));
                program.push(Cmd::Close(1));
                program.push(Cmd::Exit(exit_code));
            }
            2 => program.push(Cmd::Kill(*r.pick(&[libc::SIGKILL, libc::SIGTERM]))),
            _ => program.push(Cmd::Exit(exit_code)), // exit before the consumer drained
        }
    } else {
        // spawn_and_write_streams returns once both streams are closed; the child stays alive
        if r.bool() {
            program.push(Cmd::Close(1));
            program.push(Cmd::Close(2));
        } else {
            program.push(Cmd::Close(2));
            program.push(Cmd::Close(1));
        }
    }
    let dec_list = |r: &mut Rng, faults: bool| -> Vec<Dec> {
        let n = r.usize(6);
        (0..n)
            .map(|_| match r.below(10) {
                0..=4 => Dec::Full,
                5 | 6 => Dec::Short(1 + r.usize(CHUNK)),
                7 => Dec::Short(1),
                8 => Dec::Interrupted,
                _ if faults => Dec::Error,
                _ => Dec::Full,
            })
            .collect()
    };
    let stack = |r: &mut Rng| *r.pick(&[Stack::Plain, Stack::Plain, Stack::Tee, Stack::LineMapped, Stack::Nested]);
    Scenario {
        output_api,
        program,
        stacks: [stack(&mut r), stack(&mut r)],
        probe: [dec_list(&mut r, faults), dec_list(&mut r, faults)],
        inner: dec_list(&mut r, false),
        sched_seed: splitmix64(seed ^ 0x5c4ed),
        exit_code,
    }
}

// ------------------------------------------------------------------ worker and driver

#[derive(Clone, Debug, Serialize, Deserialize)]
pub struct E5Replay {
    pub engine: String,
    pub property: String,
    pub seed: u64,
    pub index: u64,
    pub scenario: Scenario,
    pub violation: String,
    pub detail: Vec<String>,
    pub events: Vec<String>,
    pub signature: String,
}

#[derive(Clone, Debug, Default, Serialize, Deserialize)]
pub struct E5Summary {
    pub runs: u64,
    pub fault_runs: u64,
    pub lenient_runs: u64,
    pub event_shapes: BTreeSet<u64>,
    pub nontrivial_shapes: BTreeSet<u64>,
    pub probes: BTreeMap<String, u64>,
    pub events_total: u64,
    pub bytes_streamed: u64,
    pub violations: Vec<E5Replay>,
    pub harness_errors: Vec<String>,
    pub samples: Vec<serde_json::Value>,
    pub event_hashes: Vec<(u64, u64)>,
    pub direct: direct::DirectSummary,
}

fn arg_after(args: &[String], flag: &str) -> Option<String> {
    args.iter().position(|a| a == flag).and_then(|i| args.get(i + 1).cloned())
}

fn harness_fail(msg: &str) -> ! {
    eprintln!("HARNESS-ERROR: {msg}");
    std::process::exit(2);
}

fn event_shape(events: &[String]) -> u64 {
    // event kinds only (sizes dropped)
    events.iter().fold(0u64, |h, e| {
        let kind: String = e.split(' ').take(3).filter(|w| w.parse::<u64>().is_err()).collect::<Vec<_>>().join(" ");
        splitmix64(h ^ crate::rng::hash_str(&kind))
    })
}

fn signature(v: &str, sc: &Scenario) -> String {
    format!("C19:{v}:{}", if sc.output_api { "output" } else { "spawn" })
}

fn minimise(rep: &E5Replay, scratch: &Path) -> E5Replay {
    let mut best = rep.clone();
    let same = |sc: &Scenario| -> Option<RunOutcome> {
        let o = run_scenario(sc, scratch, 400, 4_000);
        (o.violation.as_deref() == Some(rep.violation.as_str())).then_some(o)
    };
    // drop program steps (never the terminating one), then simplify stacks and decisions
    let mut i = 0;
    let mut budget = 16;
    while i + 1 < best.scenario.program.len() && budget > 0 {
        let mut c = best.scenario.clone();
        c.program.remove(i);
        budget -= 1;
        if let Some(o) = same(&c) {
            best.scenario = c;
            best.detail = o.detail;
            best.events = o.events;
        } else {
            i += 1;
        }
    }
    for f in [
        (|c: &mut Scenario| c.probe = [Vec::new(), Vec::new()]) as fn(&mut Scenario),
        |c: &mut Scenario| c.inner.clear(),
        |c: &mut Scenario| c.stacks = [Stack::Plain, Stack::Plain],
    ] {
        let mut c = best.scenario.clone();
        f(&mut c);
        if c != best.scenario && budget > 0 {
            budget -= 1;
            if let Some(o) = same(&c) {
                best.scenario = c;
                best.detail = o.detail;
                best.events = o.events;
            }
        }
    }
    best
}

pub fn worker(args: &[String]) -> i32 {
    let id = arg_after(args, "--id").unwrap_or_else(|| "x".into());
    let scratch = crate::scratch_root().join(format!("e5-{id}"));
    std::fs::create_dir_all(&scratch).unwrap_or_else(|e| harness_fail(&format!("scratch: {e}")));
    if let Some(file) = arg_after(args, "--minimise").or_else(|| arg_after(args, "--replay")) {
        let text = std::fs::read_to_string(&file).unwrap_or_else(|e| harness_fail(&e.to_string()));
        if let Ok(d) = serde_json::from_str::<direct::DirectReplay>(&text) {
            // process-free class: re-drive the writer with the recorded input, chunking and sink
            let stats = Arc::new(Mutex::new((0u64, 0u64)));
            let detail = direct::run_one(&d.input, &d.chunks, &d.sink, &d.kind, d.finish_by_unwrap, &stats);
            println!("RESULT {}", json!({"reproduced": !detail.is_empty(), "detail": detail}));
            let _ = std::fs::remove_dir_all(&scratch);
            return 0;
        }
        let rep: E5Replay = serde_json::from_str(&text).unwrap_or_else(|e| harness_fail(&e.to_string()));
        if args.iter().any(|a| a == "--replay") {
            let o = run_scenario(&rep.scenario, &scratch, 1_000, 10_000);
            println!(
                "RESULT {}",
                json!({"reproduced": o.violation.as_deref() == Some(rep.violation.as_str()), "violation": o.violation,
                       "detail": o.detail, "events": o.events, "lenient": o.lenient})
            );
        } else {
            let min = minimise(&rep, &scratch);
            println!("RESULT {}", serde_json::to_string(&min).unwrap_or_default());
        }
        let _ = std::fs::remove_dir_all(&scratch);
        return 0;
    }
    let from: u64 = arg_after(args, "--from").and_then(|s| s.parse().ok()).unwrap_or(0);
    let to: u64 = arg_after(args, "--to").and_then(|s| s.parse().ok()).unwrap_or(0);
    let direct_runs: u64 = arg_after(args, "--direct").and_then(|s| s.parse().ok()).unwrap_or(0);
    let keep_hashes = args.iter().any(|a| a == "--eventlog");
    let mut sum = E5Summary::default();
    for i in from..to {
        if sum.violations.len() >= 2 {
            // enough evidence of a broken property: stop exploring (keeps a failing check fast)
            break;
        }
        let seed = run_seed(crate::global_seed(), "e5", i);
        // every fourth run belongs to the separate fault class (hard writer errors)
        let faults = i % 4 == 3;
        let sc = generate(seed, faults);
        let o = run_scenario(&sc, &scratch, 1_000, 10_000);
        sum.runs += 1;
        if faults {
            sum.fault_runs += 1;
        }
        if let Some(e) = o.harness_error {
            sum.harness_errors.push(format!("run {i}: {e}; scenario {sc:?}; last events {:?}", o.events.iter().rev().take(12).collect::<Vec<_>>()));
            continue;
        }
        if o.lenient {
            sum.lenient_runs += 1;
        }
        let shape = event_shape(&o.events);
        sum.event_shapes.insert(shape);
        let total: usize = sc.program.iter().map(|c| if let Cmd::Write(_, n) = c { *n } else { 0 }).sum();
        if total > 65_536 {
            sum.nontrivial_shapes.insert(shape);
        }
        sum.events_total += o.events.len() as u64;
        sum.bytes_streamed += total as u64;
        for (k, v) in &o.probes {
            *sum.probes.entry(k.clone()).or_insert(0) += v;
        }
        if keep_hashes && !o.lenient {
            let h = o.events.iter().fold(0u64, |h, e| splitmix64(h ^ crate::rng::hash_str(e)));
            sum.event_hashes.push((i, h));
        }
        if std::env::var_os("VERIF_E5_DEBUG").is_some() {
            eprintln!("run {i}: {sc:?}\n  events: {:?}\n  lenient={} violation={:?}", o.events, o.lenient, o.violation);
        }
        if sum.samples.len() < 2 && o.events.len() > 6 {
            sum.samples.push(json!({"index": i, "seed": seed, "api": if sc.output_api {"output_and_write_streams"} else {"spawn_and_write_streams"},
                "stacks": format!("{:?}", sc.stacks), "program": sc.program.iter().map(|c| format!("{c:?}")).collect::<Vec<_>>(),
                "events": o.events.iter().take(40).collect::<Vec<_>>()}));
        }
        if let Some(v) = o.violation {
            if sum.violations.len() < 3 {
                sum.violations.push(E5Replay {
                    engine: "e5".into(),
                    property: "C19".into(),
                    seed,
                    index: i,
                    signature: signature(&v, &sc),
                    scenario: sc,
                    violation: v,
                    detail: o.detail,
                    events: o.events,
                });
            }
        }
    }
    if direct_runs > 0 {
        let base = from.wrapping_mul(1_000_003);
        sum.direct = direct::run_many(crate::global_seed(), base, direct_runs);
    }
    let _ = std::fs::remove_dir_all(&scratch);
    println!("RESULT {}", serde_json::to_string(&sum).unwrap_or_default());
    0
}

pub fn run_check(tier: &str) -> i32 {
    let seed = crate::global_seed();
    println!("VERIF_SEED={seed} property=C19 tier={tier} engine=E5");
    let started = Instant::now();
    let runs: u64 = std::env::var("VERIF_RUNS")
        .ok()
        .and_then(|s| s.parse().ok())
        .unwrap_or(if tier == "thorough" { 120_000 } else { 3_000 });
    let direct_total: u64 = if tier == "thorough" { 5_000_000 } else { 80_000 };
    let nw = pool::workers();
    let mut argvs = Vec::new();
    for (i, (from, to)) in pool::ranges(runs, nw).into_iter().enumerate() {
        argvs.push(
            [
                "worker", "e5", "--from", &from.to_string(), "--to", &to.to_string(), "--id", &i.to_string(),
                "--direct", &(direct_total / nw as u64).to_string(),
            ]
            .iter()
            .map(|s| (*s).to_string())
            .collect(),
        );
    }
    let results: Vec<E5Summary> = match pool::run_workers(argvs, false) {
        Ok(r) => r,
        Err(PoolError::Harness(e)) => harness_fail(&e),
    };
    let mut sum = E5Summary::default();
    for r in results {
        sum.runs += r.runs;
        sum.fault_runs += r.fault_runs;
        sum.lenient_runs += r.lenient_runs;
        sum.event_shapes.extend(r.event_shapes);
        sum.nontrivial_shapes.extend(r.nontrivial_shapes);
        for (k, v) in r.probes {
            *sum.probes.entry(k).or_insert(0) += v;
        }
        sum.events_total += r.events_total;
        sum.bytes_streamed += r.bytes_streamed;
        sum.violations.extend(r.violations);
        sum.harness_errors.extend(r.harness_errors);
        if sum.samples.len() < 2 {
            sum.samples.extend(r.samples);
            sum.samples.truncate(2);
        }
        sum.direct.merge(r.direct);
    }
    if !sum.harness_errors.is_empty() {
        for e in sum.harness_errors.iter().take(5) {
            eprintln!("HARNESS-ERROR: {e}");
        }
        return 2;
    }
    // sampled determinism: the same seeds in two different partitions
    let det = determinism_sample(48);
    let known = Known::load();
    let mut reported = 0;
    let mut known_hits = Vec::new();
    let mut seen: Vec<String> = Vec::new();
    sum.violations.sort_by_key(|v| v.index);
    let mut all: Vec<(String, Vec<String>, serde_json::Value)> = Vec::new();
    for v in &sum.violations {
        if seen.contains(&v.signature) || seen.len() >= 3 {
            continue;
        }
        seen.push(v.signature.clone());
        let dir = crate::scratch_root();
        let _ = std::fs::create_dir_all(&dir);
        let inp = dir.join(format!("e5min-{}.json", v.index));
        let _ = std::fs::write(&inp, serde_json::to_string(v).unwrap_or_default());
        let argv = vec!["worker".to_string(), "e5".to_string(), "--minimise".to_string(), inp.display().to_string(), "--id".to_string(), "min".to_string()];
        let min: E5Replay = match pool::run_workers::<E5Replay>(vec![argv], false) {
            Ok(mut r) if !r.is_empty() => r.remove(0),
            _ => v.clone(),
        };
        let _ = std::fs::remove_file(&inp);
        all.push((min.signature.clone(), min.detail.clone(), serde_json::to_value(&min).unwrap_or_default()));
    }
    for d in &sum.direct.violations {
        if seen.contains(&d.signature) {
            continue;
        }
        seen.push(d.signature.clone());
        all.push((d.signature.clone(), d.detail.clone(), serde_json::to_value(d).unwrap_or_default()));
    }
    for (sig, detail, value) in all {
        if let Some(f) = known.matches("C19", &sig) {
            let line = format!("KNOWN-FINDING: property=C19 {}", f.description);
            if !known_hits.contains(&line) {
                println!("{line}");
                known_hits.push(line);
            }
            continue;
        }
        let dir = pool::out_root().join("replays");
        let _ = std::fs::create_dir_all(&dir);
        let text = serde_json::to_string_pretty(&value).unwrap_or_default();
        let path = dir.join(format!("C19-{:08x}.json", crate::rng::hash_str(&text) & 0xffff_ffff));
        if let Err(e) = std::fs::write(&path, text + "\n") {
            harness_fail(&format!("cannot write replay: {e}"));
        }
        println!("violation: signature={sig}");
        for l in detail.iter().take(8) {
            println!("    {l}");
        }
        println!("VIOLATION property=C19 replay={}", path.display());
        reported += 1;
    }
    let wall = started.elapsed().as_secs_f64();
    let mut ev = Evidence::new("C19", tier, seed, "exploration");
    ev.cov("evaluations", json!(sum.runs + sum.direct.runs));
    ev.cov("distinct_nontrivial", json!(sum.nontrivial_shapes.len() + sum.direct.nontrivial.len()));
    ev.cov("rule", json!("process runs: seeded child programs (sizes 0..4x pipe capacity, one stream first / alternating / both full / stderr only / empty, close order, exit before drain, death by signal) x writer stacks x probe decisions (short writes, Interrupted; separate fault class: hard writer errors), scheduled by a seeded lock-step scheduler over {child step, release stdout copier, release stderr copier}; distinct = distinct event-kind sequences; non-trivial = more than one pipe capacity streamed. direct runs: seeded byte strings over {marker, other} x chunkings x short-write/Interrupted sinks through tee/mapped; distinct non-trivial = distinct (length class, marker layout, chunking shape) with >= 2 chunks"));
    ev.cov("samples", json!(sum.samples));
    ev.cov("process_runs", json!(sum.runs));
    ev.cov("process_runs_fault_class_hard_writer_error", json!(sum.fault_runs));
    ev.cov("direct_writer_runs", json!(sum.direct.runs));
    ev.cov("distinct_interleavings_event_kind_sequences", json!(sum.event_shapes.len()));
    ev.cov("scheduler_events_logical_steps", json!(sum.events_total));
    ev.cov("bytes_scripted_through_pipes", json!(sum.bytes_streamed));
    ev.cov("lenient_mode_runs_excluded_from_determinism_claim", json!(sum.lenient_runs));
    ev.cov("probes", json!(sum.probes));
    ev.cov("faults_fired", json!({
        "pipe_full_eagain": sum.probes.get("pipe_full_eagain").copied().unwrap_or(0),
        "pipe_full_partial_write": sum.probes.get("pipe_full_partial_write").copied().unwrap_or(0),
        "writer_interrupted": sum.probes.get("writer_interrupted").copied().unwrap_or(0),
        "writer_hard_error": sum.probes.get("writer_hard_error").copied().unwrap_or(0),
        "exit_with_unread_data": sum.probes.get("exit_with_unread_data").copied().unwrap_or(0),
        "killed_with_unread_data": sum.probes.get("killed_with_unread_data").copied().unwrap_or(0),
        "direct_sink_short_writes": sum.direct.short_writes,
        "direct_sink_interrupted": sum.direct.interrupted,
    }));
    ev.cov("determinism_selftest", json!(det));
    ev.cov("runs_per_hour", json!(((sum.runs + sum.direct.runs) as f64 / wall * 3600.0) as u64));
    ev.cov("simulated_time", json!("no simulated clock: logical scheduler steps; wall-clock appears only as a 1 s grace (mode switch) and a 10 s watchdog on the failure path"));
    ev.cov("components", json!({"real": "libherokubuildpack::command::{spawn_and_write_streams, output_and_write_streams}, write::{tee, mapped, line_mapped}, std::process, kernel pipes, two real copier threads", "stub": "the child program (simchild, command-driven, O_NONBLOCK writes), the user writers (probe/recorder)"}));
    ev.cov("known_findings_seen", json!(known_hits));
    ev.assumptions = vec![
        "eager delivery is used only as a scheduling aid; a missing announcement switches the run to lenient mode and is never a violation".into(),
        "relative order between the two streams is not asserted".into(),
        "after a writer error only 'a prefix was delivered' is asserted".into(),
        "one write(2) into a pipe is atomic with respect to the reader's wake-up (holds on Linux; verified by the determinism self-test)".into(),
    ];
    ev.wall_s = wall;
    ev.violations = reported;
    if let Err(e) = ev.write() {
        harness_fail(&format!("cannot write evidence: {e}"));
    }
    println!(
        "C19: {} process runs ({} lenient), {} interleavings, {} direct writer runs, {:.1}s",
        sum.runs,
        sum.lenient_runs,
        sum.event_shapes.len(),
        sum.direct.runs,
        wall
    );
    i32::from(reported > 0)
}

fn determinism_sample(n: u64) -> serde_json::Value {
    let collect = |parts: usize, tag: &str| -> BTreeMap<u64, u64> {
        let mut argvs = Vec::new();
        for (k, (from, to)) in pool::ranges(n, parts).into_iter().enumerate() {
            argvs.push(
                ["worker", "e5", "--from", &from.to_string(), "--to", &to.to_string(), "--id", &format!("{tag}{k}"), "--eventlog"]
                    .iter()
                    .map(|s| (*s).to_string())
                    .collect(),
            );
        }
        let res: Vec<E5Summary> = match pool::run_workers(argvs, false) {
            Ok(r) => r,
            Err(PoolError::Harness(e)) => harness_fail(&e),
        };
        res.into_iter().flat_map(|r| r.event_hashes).collect()
    };
    let a = collect(3, "da");
    let b = collect(2, "db");
    let mut compared = 0;
    for (i, h) in &a {
        if let Some(hb) = b.get(i) {
            compared += 1;
            if hb != h {
                harness_fail(&format!("nondeterminism detected: E5 event log of run {i} differs between two executions"));
            }
        }
    }
    json!({"runs_executed_twice": compared, "event_logs_identical": true})
}
