//! Engine E3 — packaging crash-consistency simulator for C15.
//!
//! The real `cargo-libcnb` binary (built from the working tree) packages generated
//! dependency-free workspaces with the real cargo/rustc for the host gnu target. Histories over
//! the output directory: clean, repeated, pre-seeded with stale/foreign content, and runs
//! killed at the k-th mutating file-system call beneath the package directory (LD_PRELOAD
//! shim, armed only in the cargo-libcnb process) followed by a normal run.

use crate::e2::tval::escape;
use crate::evidence::Evidence;
use crate::known::Known;
use crate::pool::{self, PoolError};
use crate::rng::{Rng, run_seed};
use crate::snap::{self, Node, Snap, show_bytes};
use serde::{Deserialize, Serialize};
use serde_json::json;
use std::collections::{BTreeMap, BTreeSet};
use std::path::{Path, PathBuf};
use std::process::{Command, Stdio};
use std::time::Instant;

pub const TARGET: &str = "x86_64-unknown-linux-gnu";

#[derive(Clone, Debug, PartialEq, Serialize, Deserialize)]
pub struct LibcnbBp {
    pub dir: String,
    pub crate_name: String,
    pub id: String,
    /// binary target names; the main one is the only one, or the one named like the package
    pub bins: Vec<String>,
    /// other things a crate commonly has: bit 0 a build script, bit 1 an integration test,
    /// bit 2 an example (Cargo reports all of them with crate type "bin")
    #[serde(default)]
    pub extras: u8,
}

impl LibcnbBp {
    pub fn main_target(&self) -> &str {
        if self.bins.len() == 1 { &self.bins[0] } else { &self.crate_name }
    }
}

#[derive(Clone, Debug, PartialEq, Serialize, Deserialize)]
pub enum Dep {
    Libcnb(String),
    /// relative path as written in package.toml
    Rel(String),
    Verbatim(String),
}

#[derive(Clone, Debug, PartialEq, Serialize, Deserialize)]
pub struct Composite {
    pub dir: String,
    pub id: String,
    pub deps: Vec<Dep>,
    pub platform: Option<String>,
    /// the directory inside the workspace is a symbolic link to the real one outside of it
    /// (a definition shared between repositories)
    #[serde(default)]
    pub via_symlink: bool,
}

#[derive(Clone, Debug, PartialEq, Serialize, Deserialize)]
pub enum PkgDir {
    Default,
    Inside(String),
    Outside,
    /// `--package-dir <relative path>`: relative to the directory the command is run in
    Relative(String),
}

/// The directory `cargo libcnb package` is run in.
pub fn invocation_dir(w: &Workspace, ws: &Path) -> PathBuf {
    match &w.from {
        From::Root => ws.to_path_buf(),
        From::Libcnb(i) => ws.join(&w.libcnb[*i].dir),
        From::Composite(i) => ws.join(&w.composites[*i].dir),
    }
}

/// Where the packaged buildpacks are expected.
pub fn package_dir(w: &Workspace, base: &Path) -> PathBuf {
    let ws = base.join("ws");
    match &w.pkg_dir {
        PkgDir::Default => ws.join("packaged"),
        PkgDir::Inside(p) => ws.join(p),
        PkgDir::Outside => base.join("outside-pkgs"),
        PkgDir::Relative(p) => normalise_lexically(&invocation_dir(w, &ws).join(p)),
    }
}

#[derive(Clone, Debug, PartialEq, Serialize, Deserialize)]
pub enum From {
    Root,
    Libcnb(usize),
    Composite(usize),
}

#[derive(Clone, Debug, PartialEq, Serialize, Deserialize)]
pub struct Workspace {
    pub libcnb: Vec<LibcnbBp>,
    pub composites: Vec<Composite>,
    pub other_buildpack_dir: bool,
    /// a second foreign directory whose buildpack.toml libcnb-data rejects:
    /// 0 none, 1 order+targets, 2 unknown keys, 3 not TOML at all
    #[serde(default)]
    pub odd_foreign_descriptor: u8,
    pub release: bool,
    pub pkg_dir: PkgDir,
    pub from: From,
    pub token: u64,
}

#[derive(Clone, Debug, PartialEq, Serialize, Deserialize)]
pub enum HistoryStep {
    /// plain run
    Run,
    /// put stale / foreign content into the output directories first (seeded)
    Preseed(u64),
    /// a run killed instead of its k-th mutating call beneath the package dir (k: 1-based;
    /// 0 = chosen from the seed over the measured range)
    CrashAt(i64, u64),
}

pub fn generate(seed: u64, tier: &str, index: u64) -> Workspace {
    let mut r = Rng::sub(seed, "e3");
    let nlib = 1 + r.usize(if tier == "thorough" { 4 } else { 2 });
    let mut libcnb = Vec::new();
    let mut uniq = 0;
    for i in 0..nlib {
        let crate_name = format!("bp-{}{i}", *r.pick(&["node", "jvm", "x", "under_score"]));
        let nb = 1 + r.usize(3);
        let mut bins = Vec::new();
        if nb == 1 {
            // a single target: any name
            bins.push(if r.bool() { crate_name.clone() } else { format!("only-target-{i}") });
        } else {
            bins.push(crate_name.clone());
            for _ in 1..nb {
                // sometimes a target name that another buildpack of the workspace uses too
                // (each buildpack has its own `helper`); the compiled files then share one
                // path in the Cargo target directory
                if r.chance(1, 3) {
                    let shared = (*r.pick(&["helper", "exec-d-shared"])).to_string();
                    if !bins.contains(&shared) {
                        bins.push(shared);
                        continue;
                    }
                }
                uniq += 1;
                bins.push(format!("{}{uniq}", *r.pick(&["helper", "exec-d-", "tool_"])));
            }
            r.shuffle(&mut bins);
        }
        libcnb.push(LibcnbBp {
            dir: match r.below(3) {
                0 => format!("buildpacks/{crate_name}"),
                1 => crate_name.clone(),
                _ => format!("nested/dir-{i}/{crate_name}"),
            },
            crate_name: crate_name.clone(),
            id: format!("{}/{}", *r.pick(&["acme", "org.example", "a-b"]), crate_name.replace('_', "-")),
            bins,
            extras: if r.chance(1, 3) { 1 + r.below(7) as u8 } else { 0 },
        });
    }
    // every third workspace with several buildpacks: two of them have their own `helper`
    if libcnb.len() >= 2 && index % 3 == 0 {
        for b in libcnb.iter_mut().take(2) {
            if b.bins.len() == 1 {
                b.bins[0] = b.crate_name.clone();
            }
            if !b.bins.iter().any(|t| t == "helper") {
                b.bins.push("helper".into());
            }
        }
    }
    // stratified by index: every fourth workspace is packaged from a composite's directory
    let stratum = index % 4;
    let ncomp = if stratum == 1 { 1 + r.usize(2) } else { r.usize(if tier == "thorough" { 4 } else { 3 }) };
    let other_buildpack_dir = r.bool();
    let mut composites: Vec<Composite> = Vec::new();
    for c in 0..ncomp {
        let dir = format!("meta/composite{c}");
        let mut deps = Vec::new();
        if stratum == 1 {
            deps.push(Dep::Libcnb(r.pick(&libcnb).id.clone()));
        }
        for _ in 0..1 + r.usize(4) {
            deps.push(match r.below(6) {
                0 | 1 | 2 => Dep::Libcnb(r.pick(&libcnb).id.clone()),
                3 if !composites.is_empty() => Dep::Libcnb(r.pick(&composites).id.clone()),
                3 | 4 => {
                    if other_buildpack_dir && r.bool() {
                        Dep::Rel((*r.pick(&["../../other/shell-bp", "./../../other/./shell-bp", "../composite0/../../other/shell-bp"])).to_string())
                    } else {
                        Dep::Rel((*r.pick(&["../../vendor/some.cnb", "local/file.cnb", "../x/../y.cnb"])).to_string())
                    }
                }
                _ => Dep::Verbatim((*r.pick(&["docker://docker.io/heroku/buildpack-procfile:4.2.1", "https://example.com/bp.tgz", "urn:cnb:registry:heroku/nodejs"])).to_string()),
            });
        }
        // sometimes the composite's directory is a link to a directory outside the workspace
        // (never the one the command is run from, and without relative-path dependencies)
        let via_symlink = (stratum == 0 && c == 0 && index % 8 == 0) || (stratum != 1 && r.chance(1, 6));
        if via_symlink {
            deps.retain(|d| !matches!(d, Dep::Rel(_)));
            if deps.is_empty() {
                deps.push(Dep::Libcnb(r.pick(&libcnb).id.clone()));
            }
        }
        composites.push(Composite {
            dir,
            via_symlink,
            id: format!("meta/comp{c}"),
            deps,
            platform: match r.below(3) {
                0 => None,
                1 => Some("linux".into()),
                _ => Some("windows".into()),
            },
        });
    }
    let from = match stratum {
        0 => From::Root,
        1 => From::Composite(r.usize(composites.len())),
        2 => From::Libcnb(r.usize(libcnb.len())),
        _ => match r.below(3) {
            0 => From::Root,
            1 => From::Libcnb(r.usize(libcnb.len())),
            _ if !composites.is_empty() => From::Composite(r.usize(composites.len())),
            _ => From::Root,
        },
    };
    let from = match from {
        From::Composite(i) if composites[i].via_symlink => From::Root,
        other => other,
    };
    // every other workspace packaged from a libcnb.rs buildpack's directory: that buildpack
    // lives inside a composite's directory (components kept next to their meta-buildpack)
    if let (From::Libcnb(j), Some(c0)) = (&from, composites.iter().find(|c| !c.via_symlink)) {
        if index % 8 == 2 {
            libcnb[*j].dir = format!("{}/components/{}", c0.dir, libcnb[*j].crate_name);
        }
    }
    Workspace {
        libcnb,
        composites,
        other_buildpack_dir,
        odd_foreign_descriptor: if r.chance(1, 2) { 1 + r.below(3) as u8 } else { 0 },
        release: r.chance(1, 4),
        // (every eighth workspace, one that is packaged from a buildpack's directory, gets a
        // relative --package-dir)
        pkg_dir: match if index % 8 == 6 { let _ = r.below(4); 2 } else if index % 8 == 4 { let _ = r.below(4); 9 } else { r.below(4) } {
            // packaged from the workspace root into the workspace root itself
            9 => PkgDir::Relative(".".into()),
            0 | 1 => PkgDir::Default,
            2 if index % 2 == 0 => PkgDir::Relative((*r.pick(&["out-dir/rel", "../out-dir/up"])).into()),
            2 => PkgDir::Inside("out-dir/pkgs".into()),
            _ => PkgDir::Outside,
        },
        from,
        token: r.next_u64(),
    }
}

pub struct Layout {
    pub ws: PathBuf,
    pub pkg: PathBuf,
    pub outside_canary: PathBuf,
}

pub fn materialise(w: &Workspace, base: &Path) -> std::io::Result<Layout> {
    let ws = base.join("ws");
    std::fs::create_dir_all(&ws)?;
    let mut members = Vec::new();
    for b in &w.libcnb {
        let d = ws.join(&b.dir);
        std::fs::create_dir_all(d.join("src"))?;
        members.push(b.dir.clone());
        let mut cargo = format!("[package]\nname = {}\nversion = \"0.1.0\"\nedition = \"2021\"\n\n[workspace]\n", escape(&b.crate_name));
        // each buildpack is its own workspace-less package inside the outer workspace? No: one
        // workspace, members listed at the root.
        cargo = cargo.replace("\n[workspace]\n", "\n");
        for t in &b.bins {
            let file = format!("src/bin_{}.rs", t.replace('-', "_"));
            cargo.push_str(&format!("[[bin]]\nname = {}\npath = {}\n\n", escape(t), escape(&file)));
            std::fs::write(
                d.join(&file),
                format!("fn main() {{\n    println!(\"{}-{}-{}\");\n}}\n", b.crate_name, t, w.token),
            )?;
        }
        std::fs::write(d.join("Cargo.toml"), cargo)?;
        if b.extras & 1 != 0 {
            std::fs::write(d.join("build.rs"), "fn main() {\n    println!(\"cargo:rerun-if-changed=build.rs\");\n}\n")?;
        }
        if b.extras & 2 != 0 {
            std::fs::create_dir_all(d.join("tests"))?;
            std::fs::write(d.join("tests/integration.rs"), "#[test]\nfn it_works() {}\n")?;
        }
        if b.extras & 4 != 0 {
            std::fs::create_dir_all(d.join("examples"))?;
            std::fs::write(d.join("examples/demo.rs"), "fn main() {}\n")?;
        }
        std::fs::write(
            d.join("buildpack.toml"),
            format!(
                "api = \"0.10\"\n\n[buildpack]\nid = {}\nversion = \"1.{}.0\"\nname = \"generated {}\"\n\n[[targets]]\nos = \"linux\"\narch = \"amd64\"\n\n[metadata]\ntoken = {}\n",
                escape(&b.id),
                w.token % 97,
                b.crate_name,
                w.token % 100_000
            ),
        )?;
    }
    for c in &w.composites {
        let d = if c.via_symlink {
            let real = base.join("ext").join(c.dir.replace('/', "_"));
            std::fs::create_dir_all(&real)?;
            let link = ws.join(&c.dir);
            if let Some(parent) = link.parent() {
                std::fs::create_dir_all(parent)?;
            }
            let _ = std::fs::remove_file(&link);
            std::os::unix::fs::symlink(&real, &link)?;
            real
        } else {
            ws.join(&c.dir)
        };
        std::fs::create_dir_all(&d)?;
        let mut bt = format!("api = \"0.10\"\n\n[buildpack]\nid = {}\nversion = \"0.{}.1\"\n\n[[order]]\n", escape(&c.id), w.token % 89);
        for dep in &c.deps {
            if let Dep::Libcnb(id) = dep {
                bt.push_str(&format!("[[order.group]]\nid = {}\nversion = \"1.0.0\"\n", escape(id)));
            }
        }
        if !c.deps.iter().any(|d| matches!(d, Dep::Libcnb(_))) {
            bt.push_str("[[order.group]]\nid = \"some/other\"\nversion = \"1.0.0\"\n");
        }
        std::fs::write(d.join("buildpack.toml"), bt)?;
        let mut pt = String::from("[buildpack]\nuri = \".\"\n\n");
        for dep in &c.deps {
            let uri = match dep {
                Dep::Libcnb(id) => format!("libcnb:{id}"),
                Dep::Rel(p) | Dep::Verbatim(p) => p.clone(),
            };
            pt.push_str(&format!("[[dependencies]]\nuri = {}\n\n", escape(&uri)));
        }
        if let Some(p) = &c.platform {
            pt.push_str(&format!("[platform]\nos = {}\n", escape(p)));
        }
        std::fs::write(d.join("package.toml"), pt)?;
    }
    if w.other_buildpack_dir {
        let d = ws.join("other/shell-bp");
        std::fs::create_dir_all(d.join("bin"))?;
        std::fs::write(d.join("buildpack.toml"), "api = \"0.10\"\n\n[buildpack]\nid = \"other/shell\"\nversion = \"0.0.1\"\n")?;
        std::fs::write(d.join("bin/build"), "#!/bin/sh\n")?;
    }
    if w.odd_foreign_descriptor != 0 {
        // Somebody else's buildpack in the workspace tree: it must simply not be packaged.
        let d = ws.join("third-party/odd-bp");
        std::fs::create_dir_all(&d)?;
        let text = match w.odd_foreign_descriptor {
            1 => "api = \"0.10\"\n\n[buildpack]\nid = \"third/party\"\nversion = \"1.0.0\"\n\n[[order]]\n[[order.group]]\nid = \"x/y\"\nversion = \"1.0.0\"\n\n[[targets]]\nos = \"linux\"\n",
            2 => "api = \"0.10\"\nfuture-key = true\n\n[buildpack]\nid = \"third/party\"\nversion = \"1.0.0\"\nsomething-new = 1\n",
            _ => "this is {{ not toml\n",
        };
        std::fs::write(d.join("buildpack.toml"), text)?;
    }
    std::fs::write(
        ws.join("Cargo.toml"),
        format!(
            "[workspace]\nresolver = \"2\"\nmembers = [{}]\n",
            members.iter().map(|m| escape(m)).collect::<Vec<_>>().join(", ")
        ),
    )?;
    let pkg = package_dir(w, base);
    // the documented precondition: the output directory is ignored when it lies in the workspace
    std::fs::write(ws.join(".ignore"), format!("packaged/\nout-dir/\ntarget/\n{TARGET}/\n"))?;
    let outside_canary = base.join("canary");
    std::fs::create_dir_all(outside_canary.join("keep"))?;
    std::fs::write(outside_canary.join("keep/file.txt"), "canary")?;
    Ok(Layout { ws, pkg, outside_canary })
}

fn cargo_libcnb() -> PathBuf {
    std::env::var_os("VERIF_CARGO_LIBCNB")
        .map_or_else(|| pool::verif_root().join("build/repo-target/release/cargo-libcnb"), PathBuf::from)
}

pub struct RunOut {
    pub status: Option<i32>,
    pub stdout: Vec<String>,
    pub stderr_tail: String,
    pub matched: i64,
    pub fired: bool,
    pub fired_call: String,
}

fn read_stats(path: &Path) -> (i64, bool, String) {
    let text = std::fs::read_to_string(path).unwrap_or_default();
    let get = |k: &str| {
        text.lines()
            .find_map(|l| l.strip_prefix(&format!("{k}=")))
            .map(str::to_string)
            .unwrap_or_default()
    };
    (get("matched").parse().unwrap_or(0), get("fired") == "1", get("fired_call"))
}

pub fn run_package(w: &Workspace, l: &Layout, base: &Path, shim_mode: Option<&str>) -> Result<RunOut, String> {
    let cwd = invocation_dir(w, &l.ws);
    let cargo = which("cargo").ok_or("cargo not found on PATH")?;
    let mut cmd = Command::new(cargo_libcnb());
    cmd.args(["libcnb", "package", "--target", TARGET, "--no-cross-compile-assistance"]);
    if w.release {
        cmd.arg("--release");
    }
    match &w.pkg_dir {
        PkgDir::Default => {}
        PkgDir::Inside(_) | PkgDir::Outside => {
            cmd.arg("--package-dir").arg(&l.pkg);
        }
        PkgDir::Relative(p) => {
            cmd.arg("--package-dir").arg(p);
        }
    }
    cmd.current_dir(&cwd)
        .env("CARGO", &cargo)
        .env("CARGO_NET_OFFLINE", "true")
        .env_remove("CI")
        .env_remove("CARGO_TARGET_DIR")
        .env_remove("LD_PRELOAD")
        .env_remove("VERIF_SHIM_PLAN")
        .stdin(Stdio::null())
        .stdout(Stdio::piped())
        .stderr(Stdio::piped());
    let stats = base.join("shim-stats.txt");
    let _ = std::fs::remove_file(&stats);
    if let Some(mode) = shim_mode {
        cmd.env("LD_PRELOAD", pool::shim_path());
        cmd.env(
            "VERIF_SHIM_PLAN",
            format!("prog=cargo-libcnb;prefix={};{mode};rdseed={};stats={}", owned_dir(l).display(), w.token | 1, stats.display()),
        );
    }
    let (out, _killed) = pool::output_limited(&mut cmd).map_err(|e| format!("spawn cargo-libcnb: {e}"))?;
    let (matched, fired, fired_call) = read_stats(&stats);
    let stderr = String::from_utf8_lossy(&out.stderr);
    Ok(RunOut {
        status: out.status.code(),
        stdout: String::from_utf8_lossy(&out.stdout).lines().map(str::to_string).collect(),
        stderr_tail: stderr.lines().rev().take(6).collect::<Vec<_>>().into_iter().rev().collect::<Vec<_>>().join(" | "),
        matched,
        fired,
        fired_call,
    })
}

fn which(prog: &str) -> Option<PathBuf> {
    std::env::var_os("PATH").and_then(|paths| {
        std::env::split_paths(&paths).map(|p| p.join(prog)).find(|p| p.is_file())
    })
}

// ------------------------------------------------------------------ reference model of the output

fn dir_name(id: &str) -> String {
    id.replace('/', "_")
}

pub fn out_dir(w: &Workspace, l: &Layout, id: &str) -> PathBuf {
    l.pkg
        .join(TARGET)
        .join(if w.release { "release" } else { "debug" })
        .join(dir_name(id))
}

/// ids of the selected buildpacks and of everything that must be packaged with them
pub fn selection(w: &Workspace) -> (Vec<String>, BTreeSet<String>) {
    let selected: Vec<String> = match &w.from {
        From::Root => w.libcnb.iter().map(|b| b.id.clone()).chain(w.composites.iter().map(|c| c.id.clone())).collect(),
        From::Libcnb(i) => vec![w.libcnb[*i].id.clone()],
        From::Composite(i) => vec![w.composites[*i].id.clone()],
    };
    let mut all: BTreeSet<String> = BTreeSet::new();
    let mut todo = selected.clone();
    while let Some(id) = todo.pop() {
        if !all.insert(id.clone()) {
            continue;
        }
        if let Some(c) = w.composites.iter().find(|c| c.id == id) {
            for d in &c.deps {
                if let Dep::Libcnb(dep) = d {
                    todo.push(dep.clone());
                }
            }
        }
    }
    (selected, all)
}

fn normalise_lexically(p: &Path) -> PathBuf {
    let mut out = PathBuf::new();
    for c in p.components() {
        match c {
            std::path::Component::CurDir => {}
            std::path::Component::ParentDir => {
                out.pop();
            }
            other => out.push(other.as_os_str()),
        }
    }
    out
}

fn file_bytes(s: &Snap, path: &str) -> Option<Vec<u8>> {
    match s.get(path.as_bytes()) {
        Some(Node::File { data, .. }) => Some(data.clone()),
        _ => None,
    }
}

/// Judge a clean (H0) result: exit status, stdout, directory contents.
pub fn judge_clean(w: &Workspace, l: &Layout, out: &RunOut) -> Vec<String> {
    let mut v = Vec::new();
    if out.status != Some(0) {
        v.push(format!("cargo libcnb package exited with {:?}: {}", out.status, out.stderr_tail));
        return v;
    }
    let (selected, all) = selection(w);
    let want_stdout: BTreeSet<String> = selected.iter().map(|id| out_dir(w, l, id).display().to_string()).collect();
    let got_stdout: BTreeSet<String> = out.stdout.iter().cloned().collect();
    if got_stdout != want_stdout || out.stdout.len() != want_stdout.len() {
        v.push(format!("stdout lists {:?}, the selected buildpacks' output directories are {:?}", out.stdout, want_stdout));
    }
    let profile_dir = l.pkg.join(TARGET).join(if w.release { "release" } else { "debug" });
    let present: BTreeSet<String> = std::fs::read_dir(&profile_dir)
        .map(|rd| rd.flatten().map(|e| e.file_name().to_string_lossy().into_owned()).collect())
        .unwrap_or_default();
    let want_dirs: BTreeSet<String> = all.iter().map(|id| dir_name(id)).collect();
    if present != want_dirs {
        v.push(format!("output directories {present:?}, expected exactly those of the selected buildpacks and their dependencies {want_dirs:?}"));
    }
    let target_dir = l.ws.join("target").join(TARGET).join(if w.release { "release" } else { "debug" });
    for id in &all {
        let d = out_dir(w, l, id);
        let snap = Snap::take(&d).unwrap_or_default();
        if let Some(b) = w.libcnb.iter().find(|b| &b.id == id) {
            let src = std::fs::read(l.ws.join(&b.dir).join("buildpack.toml")).unwrap_or_default();
            if file_bytes(&snap, "buildpack.toml").as_deref() != Some(&src[..]) {
                v.push(format!("{id}: buildpack.toml is not byte-identical to the source"));
            }
            // a target name used by several buildpacks leaves only the last one built in the
            // target directory: there the binary is recognised by the token its source prints
            let name_is_shared = |t: &str| w.libcnb.iter().filter(|o| o.bins.iter().any(|x| x == t)).count() > 1;
            let carries = |bytes: Option<Vec<u8>>, t: &str| {
                let marker = format!("{}-{}-{}", b.crate_name, t, w.token).into_bytes();
                bytes.is_some_and(|h| h.windows(marker.len()).any(|win| win == &marker[..]))
            };
            let main = std::fs::read(target_dir.join(b.main_target())).unwrap_or_default();
            if main.is_empty() || (!name_is_shared(b.main_target()) && file_bytes(&snap, "bin/build").as_deref() != Some(&main[..])) {
                v.push(format!("{id}: bin/build is not the compiled main binary ({})", b.main_target()));
            }
            if !carries(file_bytes(&snap, "bin/build"), b.main_target()) {
                v.push(format!("{id}: bin/build is not this buildpack's main binary ({}): its token is missing", b.main_target()));
            }
            match snap.get(b"bin/detect") {
                Some(Node::Symlink { target }) if target == b"build" => {}
                other => v.push(format!("{id}: bin/detect is {:?}, expected a link to build", other.map(Node::describe))),
            }
            let mut want_entries: BTreeSet<String> = ["bin", "bin/build", "bin/detect", "buildpack.toml", "package.toml"].iter().map(|s| (*s).to_string()).collect();
            let additional: Vec<&String> = b.bins.iter().filter(|t| t.as_str() != b.main_target()).collect();
            if !additional.is_empty() {
                want_entries.insert(".libcnb-cargo".into());
                want_entries.insert(".libcnb-cargo/additional-bin".into());
            }
            for t in additional {
                let p = format!(".libcnb-cargo/additional-bin/{t}");
                let compiled = std::fs::read(target_dir.join(t)).unwrap_or_default();
                if compiled.is_empty() || (!name_is_shared(t) && file_bytes(&snap, &p).as_deref() != Some(&compiled[..])) {
                    v.push(format!("{id}: additional binary {t} missing or different from the compiled one"));
                }
                if !carries(file_bytes(&snap, &p), t) {
                    v.push(format!("{id}: additional binary {t} is not the one compiled from this buildpack (its token is missing)"));
                }
                want_entries.insert(p);
            }
            match file_bytes(&snap, "package.toml").and_then(|b| String::from_utf8(b).ok()).and_then(|t| t.parse::<toml::Table>().ok()) {
                Some(t) => {
                    let uri = t.get("buildpack").and_then(|b| b.get("uri")).and_then(toml::Value::as_str);
                    if uri != Some(".") {
                        v.push(format!("{id}: package.toml buildpack uri {uri:?}"));
                    }
                }
                None => v.push(format!("{id}: package.toml missing or not TOML")),
            }
            let got_entries: BTreeSet<String> = snap.nodes.keys().map(|k| String::from_utf8_lossy(k).into_owned()).collect();
            for m in want_entries.difference(&got_entries) {
                v.push(format!("{id}: missing {m}"));
            }
        } else if let Some(c) = w.composites.iter().find(|c| &c.id == id) {
            let src = std::fs::read(l.ws.join(&c.dir).join("buildpack.toml")).unwrap_or_default();
            if file_bytes(&snap, "buildpack.toml").as_deref() != Some(&src[..]) {
                v.push(format!("{id}: buildpack.toml is not byte-identical to the source"));
            }
            let want_deps: Vec<String> = c
                .deps
                .iter()
                .map(|d| match d {
                    Dep::Libcnb(dep) => out_dir(w, l, dep).display().to_string(),
                    Dep::Rel(p) => normalise_lexically(&l.ws.join(&c.dir).join(p)).display().to_string(),
                    Dep::Verbatim(u) => u.clone(),
                })
                .collect();
            match file_bytes(&snap, "package.toml").and_then(|b| String::from_utf8(b).ok()).and_then(|t| t.parse::<toml::Table>().ok()) {
                Some(t) => {
                    let uri = t.get("buildpack").and_then(|b| b.get("uri")).and_then(toml::Value::as_str);
                    if uri != Some(".") {
                        v.push(format!("{id}: package.toml buildpack uri {uri:?}, source has \".\""));
                    }
                    let got: Vec<String> = t
                        .get("dependencies")
                        .and_then(toml::Value::as_array)
                        .map(|a| a.iter().filter_map(|d| d.get("uri").and_then(toml::Value::as_str).map(str::to_string)).collect())
                        .unwrap_or_default();
                    if got != want_deps {
                        v.push(format!("{id}: normalised dependencies {got:?}, expected {want_deps:?}"));
                    }
                    let os = t.get("platform").and_then(|p| p.get("os")).and_then(toml::Value::as_str).unwrap_or("linux").to_string();
                    let want_os = c.platform.clone().unwrap_or_else(|| "linux".into());
                    if os != want_os {
                        v.push(format!("{id}: platform os {os:?}, source has {want_os:?}"));
                    }
                }
                None => v.push(format!("{id}: package.toml missing or not TOML")),
            }
        }
    }
    v
}

/// The part of the file system the packaging run owns: the package directory — or, when that
/// is the workspace root or one of its ancestors, only the `<triple>` directory beneath it.
pub fn owned_dir(l: &Layout) -> PathBuf {
    if l.ws.starts_with(&l.pkg) { l.pkg.join(TARGET) } else { l.pkg.clone() }
}

pub fn output_tree(w: &Workspace, l: &Layout) -> Snap {
    // everything beneath the package directory (selected buildpacks and their dependencies)
    let _ = w;
    Snap::take(&owned_dir(l)).unwrap_or_default()
}

/// Stale and foreign content an earlier or interrupted run (or a user) may have left.
pub fn preseed(w: &Workspace, l: &Layout, seed: u64) -> std::io::Result<u64> {
    let mut r = Rng::new(seed);
    let (_, all) = selection(w);
    let mut n = 0;
    for id in &all {
        let d = out_dir(w, l, id);
        if r.chance(1, 8) {
            // the whole output directory is a stale symlink to a directory elsewhere
            if let Some(parent) = d.parent() {
                std::fs::create_dir_all(parent)?;
            }
            let _ = std::fs::remove_dir_all(&d);
            std::os::unix::fs::symlink(l.outside_canary.join("keep"), &d)?;
            n += 1;
            continue;
        }
        std::fs::create_dir_all(d.join("bin"))?;
        for _ in 0..1 + r.usize(5) {
            n += 1;
            match r.below(8) {
                0 => std::fs::write(d.join("stale.txt"), "left over")?,
                1 => {
                    let _ = std::fs::remove_file(d.join("bin/detect"));
                    std::fs::write(d.join("bin/detect"), "#!/bin/sh\n# stale copy instead of a link\n")?;
                }
                2 => {
                    std::fs::create_dir_all(d.join(".libcnb-cargo/additional-bin"))?;
                    std::fs::write(d.join(".libcnb-cargo/additional-bin/removed-target"), "old binary")?;
                }
                3 => {
                    let p = d.join("link-to-outside-dir");
                    let _ = std::fs::remove_file(&p);
                    std::os::unix::fs::symlink(l.outside_canary.join("keep"), &p)?;
                }
                4 => {
                    let p = d.join("dangling");
                    let _ = std::fs::remove_file(&p);
                    std::os::unix::fs::symlink("no-such-target", &p)?;
                }
                5 => {
                    std::fs::create_dir_all(d.join("deep/er/dir"))?;
                    std::fs::write(d.join("deep/er/dir/f"), "x")?;
                }
                6 => std::fs::write(d.join("buildpack.toml"), "api = \"0.1\"\n# half-written")?,
                _ => std::fs::write(d.join("package.toml"), "")?,
            }
        }
    }
    // a directory for a buildpack that is not part of this selection must be left alone
    Ok(n)
}

// ------------------------------------------------------------------ scenario execution

#[derive(Clone, Debug, Serialize, Deserialize)]
pub struct E3Replay {
    pub engine: String,
    pub property: String,
    pub seed: u64,
    pub index: u64,
    pub workspace: Workspace,
    pub history: Vec<HistoryStep>,
    pub detail: Vec<String>,
    pub signature: String,
}

#[derive(Clone, Debug, Default, Serialize, Deserialize)]
pub struct E3Summary {
    pub workspaces: u64,
    pub package_runs: u64,
    pub crashes_fired: u64,
    pub crash_by_call: BTreeMap<String, u64>,
    pub preseeded_entries: u64,
    pub cells: BTreeSet<String>,
    pub nontrivial: BTreeSet<String>,
    pub probes: BTreeMap<String, u64>,
    pub fs_calls_max: i64,
    pub violations: Vec<E3Replay>,
    pub harness_errors: Vec<String>,
    pub samples: Vec<serde_json::Value>,
}

fn tree_diff(h0: &Snap, now: &Snap) -> Vec<String> {
    snap::diff(h0, now, &|_, _, _| None, &[]).into_iter().take(8).collect()
}

pub struct HistoryOutcome {
    pub detail: Vec<String>,
    pub runs: u64,
    pub crashes: Vec<String>,
    pub fs_calls: i64,
    pub preseeded: u64,
}

/// Execute: clean run (H0, judged on its own), then `history`, each step followed by the
/// comparison of the final tree with H0 (after crash steps: after the normal run that follows).
pub fn execute(w: &Workspace, history: &[HistoryStep], base: &Path) -> Result<HistoryOutcome, String> {
    let io = |e: std::io::Error| e.to_string();
    // the same workspace is reused across histories (keeps cargo's target directory warm);
    // only the package directory is reset
    let marker = base.join("workspace-id");
    let wid = format!("{:016x}", crate::rng::hash_str(&serde_json::to_string(w).unwrap_or_default()));
    let l = if std::fs::read_to_string(&marker).ok().as_deref() == Some(wid.as_str()) {
        let l = Layout {
            ws: base.join("ws"),
            pkg: package_dir(w, base),
            outside_canary: base.join("canary"),
        };
        let owned = owned_dir(&l);
        if owned.exists() {
            snap::wipe(&owned).map_err(io)?;
            let _ = std::fs::remove_dir(&owned);
        }
        l
    } else {
        let _ = snap::wipe(base);
        std::fs::create_dir_all(base).map_err(io)?;
        let l = materialise(w, base).map_err(io)?;
        std::fs::write(&marker, &wid).map_err(io)?;
        l
    };
    let mut o = HistoryOutcome {
        detail: Vec::new(),
        runs: 0,
        crashes: Vec::new(),
        fs_calls: 0,
        preseeded: 0,
    };
    // H0 with the shim counting
    let r0 = run_package(w, &l, base, Some("mode=count"))?;
    o.runs += 1;
    o.fs_calls = r0.matched;
    let d0 = judge_clean(w, &l, &r0);
    if !d0.is_empty() {
        o.detail = d0;
        return Ok(o);
    }
    let h0 = output_tree(w, &l);
    let canary0 = Snap::take(&l.outside_canary).map_err(io)?;
    for step in history {
        match step {
            HistoryStep::Run => {}
            HistoryStep::Preseed(s) => {
                o.preseeded += preseed(w, &l, *s).map_err(io)?;
            }
            HistoryStep::CrashAt(k, s) => {
                let n = r0.matched.max(1);
                let k = if *k > 0 { *k } else { 1 + (s % n as u64) as i64 };
                let rc = run_package(w, &l, base, Some(&format!("mode=crash;k={k}")))?;
                o.runs += 1;
                if rc.fired {
                    o.crashes.push(rc.fired_call.clone());
                    if rc.status == Some(0) {
                        return Err("crash run exited 0".into());
                    }
                }
            }
        }
        let r = run_package(w, &l, base, None)?;
        o.runs += 1;
        if r.status != Some(0) {
            o.detail.push(format!(
                "after {step:?}: packaging into the left-over output directory fails with {:?}: {}",
                r.status, r.stderr_tail
            ));
            return Ok(o);
        }
        let (selected, _) = selection(w);
        let want_stdout: BTreeSet<String> = selected.iter().map(|id| out_dir(w, &l, id).display().to_string()).collect();
        let got: BTreeSet<String> = r.stdout.iter().cloned().collect();
        if got != want_stdout {
            o.detail.push(format!("after {step:?}: stdout {:?}, expected {:?}", r.stdout, want_stdout));
        }
        let now = output_tree(w, &l);
        if now != h0 {
            o.detail.push(format!("after {step:?}: the output differs from packaging into an empty directory:"));
            o.detail.extend(tree_diff(&h0, &now));
        }
        let canary = Snap::take(&l.outside_canary).map_err(io)?;
        if canary != canary0 {
            o.detail.push(format!("after {step:?}: a directory outside the output that a stale symlink pointed to was modified"));
        }
        if !o.detail.is_empty() {
            return Ok(o);
        }
    }
    Ok(o)
}

fn signature(detail: &[String]) -> String {
    let l = detail
        .iter()
        .find(|l| l.starts_with("missing") || l.starts_with("unexpected") || l.starts_with("differs"))
        .or_else(|| detail.first())
        .cloned()
        .unwrap_or_default();
    let l = l.split(':').next().unwrap_or("").to_string();
    let kind = l.split(' ').next().unwrap_or("").to_string();
    let tail: String = l.rsplit('/').next().unwrap_or("").chars().filter(|c| !c.is_ascii_digit()).take(40).collect();
    format!("C15:{kind}:{tail}")
}

fn arg_after(args: &[String], flag: &str) -> Option<String> {
    args.iter().position(|a| a == flag).and_then(|i| args.get(i + 1).cloned())
}

fn harness_fail(msg: &str) -> ! {
    eprintln!("HARNESS-ERROR: {msg}");
    std::process::exit(2);
}

pub fn histories_for(seed: u64, tier: &str, n_calls_hint: i64) -> Vec<Vec<HistoryStep>> {
    let mut r = Rng::sub(seed, "e3-history");
    let mut hs = vec![
        vec![HistoryStep::Run],
        vec![HistoryStep::Preseed(r.next_u64())],
        vec![HistoryStep::CrashAt(0, r.next_u64())],
        vec![HistoryStep::CrashAt(0, r.next_u64()), HistoryStep::CrashAt(0, r.next_u64())],
        vec![HistoryStep::Preseed(r.next_u64()), HistoryStep::CrashAt(0, r.next_u64())],
    ];
    if tier == "thorough" {
        // every crash index of this workspace
        hs.push((1..=n_calls_hint.max(1)).map(|k| HistoryStep::CrashAt(k, 0)).collect());
    }
    hs
}

pub fn worker(args: &[String]) -> i32 {
    let id = arg_after(args, "--id").unwrap_or_else(|| "x".into());
    let tier = arg_after(args, "--tier").unwrap_or_else(|| "quick".into());
    let scratch = crate::scratch_root().join(format!("e3-{id}"));
    std::fs::create_dir_all(&scratch).unwrap_or_else(|e| harness_fail(&format!("scratch: {e}")));
    let base = scratch.join("b");
    if let Some(file) = arg_after(args, "--replay") {
        let text = std::fs::read_to_string(&file).unwrap_or_else(|e| harness_fail(&e.to_string()));
        let rep: E3Replay = serde_json::from_str(&text).unwrap_or_else(|e| harness_fail(&e.to_string()));
        let o = execute(&rep.workspace, &rep.history, &base).unwrap_or_else(|e| harness_fail(&e));
        println!("RESULT {}", json!({"reproduced": !o.detail.is_empty() && signature(&o.detail) == rep.signature, "detail": o.detail}));
        let _ = std::fs::remove_dir_all(&scratch);
        return 0;
    }
    if let Some(file) = arg_after(args, "--minimise") {
        let text = std::fs::read_to_string(&file).unwrap_or_else(|e| harness_fail(&e.to_string()));
        let mut rep: E3Replay = serde_json::from_str(&text).unwrap_or_else(|e| harness_fail(&e.to_string()));
        // shrink the history first (keep the suffix that still fails), then the workspace
        let try_it = |w: &Workspace, h: &[HistoryStep]| -> Option<Vec<String>> {
            let o = execute(w, h, &base).ok()?;
            (!o.detail.is_empty() && signature(&o.detail) == rep.signature).then_some(o.detail)
        };
        let mut i = 0;
        while i < rep.history.len() && rep.history.len() > 1 {
            let mut h = rep.history.clone();
            h.remove(i);
            if let Some(d) = try_it(&rep.workspace, &h) {
                rep.history = h;
                rep.detail = d;
            } else {
                i += 1;
            }
        }
        let mut budget = 12;
        loop {
            let mut progressed = false;
            let mut cands: Vec<Workspace> = Vec::new();
            for ci in 0..rep.workspace.composites.len() {
                let mut w = rep.workspace.clone();
                let removed = w.composites.remove(ci).id;
                if w.composites.iter().any(|c| c.deps.contains(&Dep::Libcnb(removed.clone()))) {
                    continue;
                }
                if let From::Composite(i) = w.from {
                    if i == ci {
                        continue;
                    }
                    if i > ci {
                        w.from = From::Composite(i - 1);
                    }
                }
                cands.push(w);
            }
            let mut w = rep.workspace.clone();
            if w.pkg_dir != PkgDir::Default {
                w.pkg_dir = PkgDir::Default;
                cands.push(w);
            }
            for w in cands {
                if budget == 0 {
                    break;
                }
                budget -= 1;
                if let Some(d) = try_it(&w, &rep.history) {
                    rep.workspace = w;
                    rep.detail = d;
                    progressed = true;
                    break;
                }
            }
            if !progressed || budget == 0 {
                break;
            }
        }
        println!("RESULT {}", serde_json::to_string(&rep).unwrap_or_default());
        let _ = std::fs::remove_dir_all(&scratch);
        return 0;
    }
    let from: u64 = arg_after(args, "--from").and_then(|s| s.parse().ok()).unwrap_or(0);
    let to: u64 = arg_after(args, "--to").and_then(|s| s.parse().ok()).unwrap_or(0);
    let mut sum = E3Summary::default();
    for i in from..to {
        if sum.violations.len() >= 2 {
            break;
        }
        let seed = run_seed(crate::global_seed(), "e3", i);
        let w = generate(seed, &tier, i);
        sum.workspaces += 1;
        let mut n_calls = 0;
        let mut first = true;
        let mut hist_list = histories_for(seed, &tier, 0);
        let mut hi = 0;
        while hi < hist_list.len() {
            let h = hist_list[hi].clone();
            hi += 1;
            match execute(&w, &h, &base) {
                Err(e) => {
                    sum.harness_errors.push(format!("workspace {i}: {e}"));
                    break;
                }
                Ok(o) => {
                    sum.package_runs += o.runs;
                    sum.preseeded_entries += o.preseeded;
                    sum.crashes_fired += o.crashes.len() as u64;
                    for c in &o.crashes {
                        *sum.crash_by_call.entry(c.clone()).or_insert(0) += 1;
                    }
                    sum.fs_calls_max = sum.fs_calls_max.max(o.fs_calls);
                    if first {
                        first = false;
                        n_calls = o.fs_calls;
                        if tier == "thorough" {
                            hist_list = histories_for(seed, &tier, n_calls);
                        }
                    }
                    let kind: Vec<&str> = h
                        .iter()
                        .map(|s| match s {
                            HistoryStep::Run => "run",
                            HistoryStep::Preseed(_) => "preseed",
                            HistoryStep::CrashAt(..) => "crash",
                        })
                        .collect();
                    let shape = format!(
                        "lib{}comp{}|{:?}|{}|{:?}|{}|crash:{}",
                        w.libcnb.len(),
                        w.composites.len(),
                        std::mem::discriminant(&w.from),
                        if w.release { "release" } else { "dev" },
                        std::mem::discriminant(&w.pkg_dir),
                        kind.join("+"),
                        o.crashes.join(",")
                    );
                    if !o.crashes.is_empty() || o.preseeded > 0 {
                        sum.nontrivial.insert(shape.clone());
                    }
                    sum.cells.insert(shape);
                    if !w.composites.is_empty() {
                        *sum.probes.entry("workspace_with_composites".into()).or_insert(0) += 1;
                    }
                    if sum.samples.len() < 2 && !o.crashes.is_empty() {
                        sum.samples.push(json!({"index": i, "seed": seed, "history": format!("{h:?}"), "crashed_instead_of": o.crashes,
                            "workspace": {"libcnb": w.libcnb.iter().map(|b| format!("{} bins={:?}", b.id, b.bins)).collect::<Vec<_>>(),
                                          "composites": w.composites.iter().map(|c| format!("{} deps={:?}", c.id, c.deps)).collect::<Vec<_>>(),
                                          "from": format!("{:?}", w.from), "release": w.release, "pkg_dir": format!("{:?}", w.pkg_dir)},
                            "mutating_fs_calls_beneath_package_dir": o.fs_calls}));
                    }
                    if !o.detail.is_empty() {
                        sum.violations.push(E3Replay {
                            engine: "e3".into(),
                            property: "C15".into(),
                            seed,
                            index: i,
                            workspace: w.clone(),
                            history: h,
                            signature: signature(&o.detail),
                            detail: o.detail,
                        });
                        break;
                    }
                }
            }
        }
        let _ = n_calls;
    }
    let _ = std::fs::remove_dir_all(&scratch);
    println!("RESULT {}", serde_json::to_string(&sum).unwrap_or_default());
    0
}

pub fn run_check(tier: &str) -> i32 {
    let seed = crate::global_seed();
    println!("VERIF_SEED={seed} property=C15 tier={tier} engine=E3");
    if !cargo_libcnb().is_file() {
        harness_fail(&format!("{} not built", cargo_libcnb().display()));
    }
    let started = Instant::now();
    let n: u64 = std::env::var("VERIF_RUNS")
        .ok()
        .and_then(|s| s.parse().ok())
        .unwrap_or(if tier == "thorough" { 160 } else { 16 });
    let mut argvs = Vec::new();
    for (i, (from, to)) in pool::ranges(n, pool::workers()).into_iter().enumerate() {
        argvs.push(
            ["worker", "e3", "--from", &from.to_string(), "--to", &to.to_string(), "--id", &i.to_string(), "--tier", tier]
                .iter()
                .map(|s| (*s).to_string())
                .collect(),
        );
    }
    let results: Vec<E3Summary> = match pool::run_workers(argvs, false) {
        Ok(r) => r,
        Err(PoolError::Harness(e)) => harness_fail(&e),
    };
    let mut sum = E3Summary::default();
    for r in results {
        sum.workspaces += r.workspaces;
        sum.package_runs += r.package_runs;
        sum.crashes_fired += r.crashes_fired;
        for (k, v) in r.crash_by_call {
            *sum.crash_by_call.entry(k).or_insert(0) += v;
        }
        sum.preseeded_entries += r.preseeded_entries;
        sum.cells.extend(r.cells);
        sum.nontrivial.extend(r.nontrivial);
        for (k, v) in r.probes {
            *sum.probes.entry(k).or_insert(0) += v;
        }
        sum.fs_calls_max = sum.fs_calls_max.max(r.fs_calls_max);
        sum.violations.extend(r.violations);
        sum.harness_errors.extend(r.harness_errors);
        if sum.samples.len() < 2 {
            sum.samples.extend(r.samples);
            sum.samples.truncate(2);
        }
    }
    if !sum.harness_errors.is_empty() {
        for e in sum.harness_errors.iter().take(5) {
            eprintln!("HARNESS-ERROR: {e}");
        }
        return 2;
    }
    let known = Known::load();
    let mut reported = 0;
    let mut known_hits: Vec<String> = Vec::new();
    let mut seen: Vec<String> = Vec::new();
    sum.violations.sort_by_key(|v| v.index);
    for v in &sum.violations {
        if seen.contains(&v.signature) || seen.len() >= 3 {
            continue;
        }
        seen.push(v.signature.clone());
        let dir = crate::scratch_root();
        let _ = std::fs::create_dir_all(&dir);
        let inp = dir.join(format!("e3min-{}.json", v.index));
        let _ = std::fs::write(&inp, serde_json::to_string(v).unwrap_or_default());
        let argv = vec!["worker".to_string(), "e3".to_string(), "--minimise".to_string(), inp.display().to_string(), "--id".to_string(), "min".to_string()];
        let min: E3Replay = match pool::run_workers::<E3Replay>(vec![argv], false) {
            Ok(mut r) if !r.is_empty() => r.remove(0),
            _ => v.clone(),
        };
        let _ = std::fs::remove_file(&inp);
        if let Some(f) = known.matches("C15", &min.signature) {
            let line = format!("KNOWN-FINDING: property=C15 {}", f.description);
            if !known_hits.contains(&line) {
                println!("{line}");
                known_hits.push(line);
            }
            continue;
        }
        let rdir = pool::out_root().join("replays");
        let _ = std::fs::create_dir_all(&rdir);
        let text = serde_json::to_string_pretty(&min).unwrap_or_default();
        let path = rdir.join(format!("C15-{:08x}.json", crate::rng::hash_str(&text) & 0xffff_ffff));
        if let Err(e) = std::fs::write(&path, text + "\n") {
            harness_fail(&format!("cannot write replay: {e}"));
        }
        println!("violation: signature={} (workspace {} history {:?})", min.signature, min.index, min.history);
        for l in min.detail.iter().take(10) {
            println!("    {l}");
        }
        println!("VIOLATION property=C15 replay={}", path.display());
        reported += 1;
    }
    let wall = started.elapsed().as_secs_f64();
    let mut ev = Evidence::new("C15", tier, seed, "exploration");
    ev.cov("evaluations", json!(sum.package_runs));
    ev.cov("distinct_nontrivial", json!(sum.nontrivial.len()));
    ev.cov("rule", json!("seeded workspaces (1-5 libcnb buildpack crates with 1-3 binary targets, 0-3 composites whose package.toml mixes libcnb:/relative/docker/https/urn dependencies forming a DAG, a non-libcnb buildpack directory, an ignore file for the output directory), invocation from the root or one buildpack directory, dev/release, default/custom package dir; histories: clean (judged against the reference layout), repeated, pre-seeded stale/foreign content, runs killed at a seeded (thorough: every) mutating file-system call beneath the package dir followed by a normal run; after every history the output tree must equal the clean tree. distinct = (workspace shape, invocation, profile, package dir, history kind, crashed call); non-trivial = a crash fired or stale content was present"));
    ev.cov("samples", json!(sum.samples));
    ev.cov("workspaces", json!(sum.workspaces));
    ev.cov("faults_fired", json!({"process_killed_at_fs_call": sum.crashes_fired, "killed_instead_of_call": sum.crash_by_call, "stale_or_foreign_entries_preseeded": sum.preseeded_entries}));
    ev.cov("mutating_fs_calls_beneath_package_dir_max", json!(sum.fs_calls_max));
    ev.cov("distinct_cells", json!(sum.cells.len()));
    ev.cov("probes", json!(sum.probes));
    ev.cov("runs_per_hour", json!((sum.package_runs as f64 / wall * 3600.0) as u64));
    ev.cov("simulated_time", json!("no clock involved; logical steps = intercepted file-system calls of the cargo-libcnb process"));
    ev.cov("components", json!({"real": "cargo-libcnb built from the working tree (libcnb-cargo, libcnb-package, libcnb-data, libcnb-common), cargo, rustc, kernel tmpfs", "stub": "the generated buildpack crates (fn main prints a token), the user/earlier run that left stale content"}));
    ev.cov("known_findings_seen", json!(known_hits));
    ev.assumptions = vec![
        "host gnu target only (--target x86_64-unknown-linux-gnu --no-cross-compile-assistance); the triple is an opaque path component to the code under test".into(),
        "CI is removed from the environment".into(),
        "the output directory inside the workspace is named in an ignore file (documented precondition)".into(),
        "buildpack ids stay distinct after the '/' -> '_' directory-name mapping".into(),
        "all workspace and package-dir paths are URI-safe (no spaces): composite normalisation turns paths into URI references and rejects others with an error (the limitation C14's quantifier also names)".into(),
        "crash = the cargo-libcnb process _exit()s instead of performing the k-th matching call; cargo/rustc children are not killed".into(),
    ];
    ev.wall_s = wall;
    ev.violations = reported;
    if let Err(e) = ev.write() {
        harness_fail(&format!("cannot write evidence: {e}"));
    }
    println!(
        "C15: {} workspaces, {} package runs, {} crashes fired, {} cells, {:.1}s",
        sum.workspaces, sum.package_runs, sum.crashes_fired, sum.cells.len(), wall
    );
    let _ = show_bytes;
    i32::from(reported > 0)
}
