//! E4 scenario trees: what an integration test written against libcnb-test does.

use crate::rng::Rng;
use serde::{Deserialize, Serialize};

#[derive(Clone, Debug, PartialEq, Serialize, Deserialize)]
pub struct BuildCfg {
    pub builder: String,
    /// relative to CARGO_MANIFEST_DIR, or absolute
    pub app_dir_relative: bool,
    pub buildpacks: Vec<String>,
    pub env: Vec<(String, String)>,
    /// Some(content): a preprocessor adds `added-by-preprocessor.txt` with this content
    pub preprocessor: Option<String>,
    /// what else the preprocessor does to the private copy: 0 nothing, 1 appends to app.txt in
    /// place, 2 rewrites app.txt, 3 removes the file in the sub directory
    #[serde(default)]
    pub preprocessor_edit: u8,
    /// set the app dir through `BuildConfig::app_dir` instead of the constructor
    #[serde(default)]
    pub app_dir_via_setter: bool,
    pub expect_failure: bool,
    /// the stand-in pack fails this build (scripted through an env pair)
    pub pack_fails: bool,
    /// Some((i, by_id)): a reference to the crate's own buildpack is inserted at position i of
    /// the buildpack list (`CurrentCrate`, or `WorkspaceBuildpack(<its id>)` when by_id);
    /// libcnb-test compiles and packages it into a temporary directory first
    #[serde(default)]
    pub own_buildpack: Option<(usize, bool)>,
    /// how the environment pairs are handed over: 0 one `env` call each, 1 one `envs` call,
    /// 2 `env` for the first half then `envs` for the rest, 3 two `envs` calls
    #[serde(default)]
    pub env_style: u8,
    /// the build targets aarch64 instead of the default x86_64 (only without an own buildpack:
    /// nothing is compiled then)
    #[serde(default)]
    pub target_aarch64: bool,
}

#[derive(Clone, Debug, PartialEq, Serialize, Deserialize)]
pub struct ContainerCfg {
    pub entrypoint: Option<String>,
    pub command: Option<Vec<String>>,
    pub env: Vec<(String, String)>,
    pub ports: Vec<u16>,
    pub mounts: Vec<(String, String)>,
    /// as `BuildCfg::env_style`
    #[serde(default)]
    pub env_style: u8,
}

#[derive(Clone, Debug, PartialEq, Serialize, Deserialize)]
pub enum CStep {
    LogsNow,
    LogsWait,
    AddressForPort(u16),
    ShellExec(String),
    /// a second container started while this one is running
    Nested { cfg: ContainerCfg, steps: Vec<CStep> },
}

#[derive(Clone, Debug, PartialEq, Serialize, Deserialize)]
pub enum Step {
    StartContainer { cfg: ContainerCfg, steps: Vec<CStep> },
    RunShell(String),
    DownloadSbom,
    /// consumes the context: always the last step of its build
    Rebuild(Box<BuildNode>),
    /// an independent `TestRunner::build` made while this build's context is still alive (two
    /// builds at once); `id` is the marker value that tells its pack builds apart
    NestedBuild { id: usize, node: Box<BuildNode> },
}

#[derive(Clone, Debug, PartialEq, Serialize, Deserialize)]
pub struct BuildNode {
    pub cfg: BuildCfg,
    pub steps: Vec<Step>,
}

#[derive(Clone, Debug, PartialEq, Serialize, Deserialize)]
pub enum Fault {
    None,
    /// panic injected into user code right before the step with this pre-order number
    /// (0 = inside the app-dir preprocessor; n+1 past the last = at the end of the closure)
    PanicAt(u32),
    /// the k-th non-cleanup external command fails
    CommandFailsAt(u32),
}

#[derive(Clone, Debug, PartialEq, Serialize, Deserialize)]
pub struct Scenario {
    pub root: BuildNode,
    pub fault: Fault,
    pub fastrand_seed: u64,
    /// how the stand-in docker answers `rmi --force`: 0 removes, missing image is fine (newer
    /// CLIs); 1 removes, but a missing image (pack failed before exporting) exits 1 (older
    /// CLIs); 2 the daemon refuses (exits 1, image stays)
    #[serde(default)]
    pub rmi_mode: u8,
    /// the fixture holds an entry that cannot be copied (a dangling symbolic link): a build with
    /// a preprocessor then fails while making its private copy
    #[serde(default)]
    pub fixture_uncopyable: bool,
    /// the crate under test does not compile (packaging its buildpack fails)
    #[serde(default)]
    pub crate_broken: bool,
    /// further, independent `TestRunner::build` calls made by the same test process after the
    /// first one (each with its own image and volumes)
    #[serde(default)]
    pub more_roots: Vec<BuildNode>,
    /// the test process's current directory is not CARGO_MANIFEST_DIR (another test changed it,
    /// or a runner other than cargo started the binary); a decoy `fixtures/app` lives there
    #[serde(default)]
    pub cwd_elsewhere: bool,
}

const TRICKY: [&str; 14] = [
    "plain",
    "",
    "with space",
    "--leading-dashes",
    "-x",
    "a=b=c",
    "ünï ✓",
    "--rm",
    "--",
    "quo\"te",
    "new\nline",
    "$(echo x)",
    "--env=X=Y",
    "*",
];

fn tricky(r: &mut Rng) -> String {
    (*r.pick(&TRICKY)).to_string()
}

fn gen_env(r: &mut Rng) -> Vec<(String, String)> {
    let mut v: Vec<(String, String)> = Vec::new();
    for _ in 0..r.usize(4) {
        let k = (*r.pick(&["FOO", "BAR", "PATH", "lower_case", "-dash", "WITH.DOT", "Ü"])).to_string();
        if v.iter().any(|(kk, _)| *kk == k) {
            continue;
        }
        v.push((k, tricky(r)));
    }
    v
}

fn gen_container(r: &mut Rng) -> ContainerCfg {
    let mut ports: Vec<u16> = (0..r.usize(3)).map(|_| *r.pick(&[80u16, 8080, 1, 65535, 12345])).collect();
    ports.sort_unstable();
    ports.dedup();
    let mut mounts: Vec<(String, String)> = Vec::new();
    for _ in 0..r.usize(3) {
        // "$MNT/..." are directories that exist on the host: `current` is a link to `releases/v2`
        let s = (*r.pick(&["/host/data", "/tmp/with space", "/a=b", "/ünï", "relative/src", "/-dash", "$MNT/current", "$MNT/releases/v2", "$MNT/current"])).to_string();
        if mounts.iter().any(|(ss, _)| *ss == s) {
            continue;
        }
        mounts.push((s, (*r.pick(&["/data", "/mnt/with space", "/t=1", "/-t", "cache", "./tmp", "workspace/b"])).to_string()));
    }
    if r.chance(1, 4) {
        // two mounts nested consistently on both sides (seeded change C17-15)
        for (s, t) in [("/host/data", "/data"), ("/host/data/cache", "/data/cache")] {
            if let Some(m) = mounts.iter_mut().find(|(ss, _)| ss == s) {
                m.1 = t.to_string();
            } else {
                mounts.push((s.to_string(), t.to_string()));
            }
        }
    }
    ContainerCfg {
        entrypoint: r.bool().then(|| tricky(r)).filter(|e| !e.is_empty()),
        command: r.bool().then(|| (0..r.usize(4)).map(|_| tricky(r)).collect()),
        env: gen_env(r),
        ports,
        mounts,
        env_style: r.below(4) as u8,
    }
}

fn gen_build(r: &mut Rng, depth: u32) -> BuildNode {
    let pack_fails = r.chance(1, 5);
    let expect_failure = if r.chance(1, 6) { !pack_fails } else { pack_fails };
    let cfg = BuildCfg {
        builder: (*r.pick(&["heroku/builder:24", "builder with space", "-b", "b=1"])).to_string(),
        app_dir_relative: r.bool(),
        buildpacks: (0..r.usize(4))
            .map(|_| (*r.pick(&["heroku/nodejs", "docker://x/y:1", "--trust-builder", "-p", "with space", "a=b", "urn:cnb:registry:x", ""])).to_string())
            .collect(),
        env: gen_env(r),
        preprocessor: r.chance(2, 5).then(|| tricky(r)),
        preprocessor_edit: r.below(4) as u8,
        app_dir_via_setter: r.chance(1, 3),
        expect_failure,
        pack_fails,
        own_buildpack: None,
        env_style: r.below(4) as u8,
        target_aarch64: false,
    };
    let mut cfg = cfg;
    cfg.target_aarch64 = r.chance(1, 4);
    if r.chance(1, 6) {
        cfg.own_buildpack = Some((r.usize(cfg.buildpacks.len() + 1), r.bool()));
        cfg.target_aarch64 = false;
    }
    let mut steps = Vec::new();
    let n = r.usize(4);
    for _ in 0..n {
        match r.below(6) {
            0..=2 => {
                let cfg = gen_container(r);
                let mut cs = Vec::new();
                for _ in 0..r.usize(4) {
                    cs.push(match r.below(4) {
                        0 => CStep::LogsNow,
                        1 => CStep::LogsWait,
                        2 => {
                            // mostly an exposed port, sometimes one that is not exposed (panics)
                            if !cfg.ports.is_empty() && r.chance(5, 6) {
                                CStep::AddressForPort(*r.pick(&cfg.ports))
                            } else {
                                CStep::AddressForPort(4444)
                            }
                        }
                        _ => CStep::ShellExec(tricky(r)),
                    });
                }
                if r.chance(1, 4) {
                    let inner = gen_container(r);
                    let inner_steps = (0..r.usize(3))
                        .map(|_| if r.bool() { CStep::LogsNow } else { CStep::ShellExec(tricky(r)) })
                        .collect();
                    let at = r.usize(cs.len() + 1);
                    cs.insert(at, CStep::Nested { cfg: inner, steps: inner_steps });
                }
                steps.push(Step::StartContainer { cfg, steps: cs });
            }
            3 => steps.push(Step::RunShell(tricky(r))),
            _ => steps.push(Step::DownloadSbom),
        }
    }
    if depth == 0 && r.chance(1, 8) {
        // mostly the very same app, builder and buildpacks (identical inputs give the same image
        // contents under another name)
        let node = if r.chance(2, 3) {
            BuildNode { cfg: BuildCfg { preprocessor: None, own_buildpack: None, ..cfg.clone() }, steps: Vec::new() }
        } else {
            gen_build(r, 2)
        };
        let at = r.usize(steps.len() + 1);
        steps.insert(at, Step::NestedBuild { id: 100 + r.usize(800), node: Box::new(node) });
    }
    if depth < 2 && r.chance(1, 3) {
        steps.push(Step::Rebuild(Box::new(gen_build(r, depth + 1))));
    }
    BuildNode { cfg, steps }
}

pub fn generate(seed: u64) -> Scenario {
    let mut r = Rng::sub(seed, "e4");
    let root = gen_build(&mut r, 0);
    let mut r2 = Rng::sub(seed, "e4-docker");
    Scenario {
        root,
        fault: Fault::None,
        fastrand_seed: seed ^ 0xfa57,
        rmi_mode: match r2.below(8) {
            0 | 1 => 1,
            2 => 2,
            _ => 0,
        },
        fixture_uncopyable: r2.chance(1, 8),
        crate_broken: r2.chance(1, 6),
        more_roots: if r2.chance(1, 5) { vec![gen_build(&mut r2, 1)] } else { Vec::new() },
        cwd_elsewhere: r2.chance(1, 4),
    }
}

/// Pre-order numbering of the user-code positions where a panic can be injected:
/// for each build: preprocessor (if any), then each step (container steps nested), then "end".
pub fn count_positions(n: &BuildNode) -> u32 {
    let mut c = 0;
    if n.cfg.preprocessor.is_some() {
        c += 1;
    }
    for s in &n.steps {
        c += 1;
        match s {
            Step::StartContainer { steps, .. } => {
                c += steps.len() as u32 + 1;
                for cs in steps {
                    if let CStep::Nested { steps: inner, .. } = cs {
                        c += inner.len() as u32 + 1;
                    }
                }
            }
            Step::Rebuild(b) => c += count_positions(b),
            Step::NestedBuild { node, .. } => c += count_positions(node),
            _ => {}
        }
    }
    c + 1
}

/// Mount sources written as `$MNT/...` stand for paths below the scenario's `mnt` directory.
pub fn resolve_mount_source(src: &str, mnt: &std::path::Path) -> String {
    match src.strip_prefix("$MNT") {
        Some(rest) => format!("{}{rest}", mnt.display()),
        None => src.to_string(),
    }
}
