//! Engine E4 — libcnb-test against stand-in `docker` / `pack` (C16, C17).
//!
//! Every scenario is first run fault-free, then once per panic position of the user code and
//! once per non-cleanup external command made to fail (fault enumeration). The recorded argv
//! history and the stand-ins' resource state are then judged.

pub mod scenario;

use crate::evidence::Evidence;
use crate::known::Known;
use crate::pool::{self, PoolError};
use crate::rng::run_seed;
use scenario::{BuildNode, CStep, ContainerCfg, Fault, Scenario, Step};
use serde::{Deserialize, Serialize};
use serde_json::json;
use std::collections::{BTreeMap, BTreeSet};
use std::path::{Path, PathBuf};
use std::process::{Command, Stdio};
use std::time::Instant;

/// id of the buildpack that the scenario's own crate is
pub const OWN_BUILDPACK_ID: &str = "verif/own";
pub const OWN_BUILDPACK_TOML: &str = "api = \"0.10\"\n\n[buildpack]\nid = \"verif/own\"\nversion = \"0.0.1\"\n";

pub fn dir_digest(dir: &Path) -> String {
    fn walk(base: &Path, dir: &Path, out: &mut Vec<(String, Vec<u8>)>) {
        let Ok(rd) = std::fs::read_dir(dir) else { return };
        for e in rd.flatten() {
            let p = e.path();
            let rel = p.strip_prefix(base).unwrap_or(&p).to_string_lossy().into_owned();
            if p.is_dir() {
                out.push((format!("{rel}/"), Vec::new()));
                walk(base, &p, out);
            } else {
                // content and permission bits (an executable must stay executable)
                use std::os::unix::fs::PermissionsExt;
                let mode = std::fs::metadata(&p).map(|m| m.permissions().mode() & 0o777).unwrap_or(0);
                let mut data = std::fs::read(&p).unwrap_or_default();
                data.extend_from_slice(format!("\u{0}mode={mode:o}").as_bytes());
                out.push((rel, data));
            }
        }
    }
    let mut v = Vec::new();
    walk(dir, dir, &mut v);
    v.sort();
    let mut h: u64 = 0xcbf2_9ce4_8422_2325;
    for (k, d) in v {
        for b in k.bytes().chain([0u8]).chain(d).chain([1u8]) {
            h ^= u64::from(b);
            h = h.wrapping_mul(0x0000_0100_0000_01B3);
        }
    }
    format!("{h:016x}")
}

/// The files of the app fixture (also of the model of its private copy): contents and modes.
fn write_fixture_files(dir: &Path) -> std::io::Result<()> {
    use std::os::unix::fs::PermissionsExt;
    std::fs::create_dir_all(dir.join("sub dir"))?;
    std::fs::create_dir_all(dir.join("bin"))?;
    std::fs::write(dir.join("app.txt"), "fixture app\n")?;
    std::fs::write(dir.join("sub dir/ünï.bin"), [0u8, 159, 146, 150])?;
    std::fs::write(dir.join("bin/web"), "#!/bin/sh\nexec sleep 1\n")?;
    std::fs::set_permissions(dir.join("bin/web"), std::fs::Permissions::from_mode(0o755))?;
    std::fs::write(dir.join("bin/secret.key"), "k")?;
    std::fs::set_permissions(dir.join("bin/secret.key"), std::fs::Permissions::from_mode(0o600))
}

/// The in-place part of the scripted app-dir preprocessor (also applied to the model copy).
pub fn preprocessor_edit(dir: &Path, edit: u8) -> std::io::Result<()> {
    use std::io::Write;
    match edit {
        1 => {
            let mut f = std::fs::OpenOptions::new().append(true).open(dir.join("app.txt"))?;
            f.write_all(b"appended in place\n")
        }
        2 => std::fs::write(dir.join("app.txt"), "rewritten\n"),
        3 => std::fs::remove_file(dir.join("sub dir/ünï.bin")),
        _ => Ok(()),
    }
}

// ------------------------------------------------------------------ reference option grammars

#[derive(Debug, Default, Clone, PartialEq)]
pub struct PackBuild {
    pub image: String,
    pub builder: Vec<String>,
    pub path: Vec<String>,
    pub pull_policy: Vec<String>,
    pub caches: Vec<String>,
    pub buildpacks: Vec<String>,
    pub env: Vec<String>,
    pub trust_builder: bool,
    pub trust_extra: bool,
}

/// pflag rules (interspersed): `--name value` / `--name=value`; a value flag consumes the next
/// argument whatever it looks like; `--` ends options.
pub fn parse_pack_build(args: &[String]) -> Result<PackBuild, String> {
    let mut p = PackBuild::default();
    let mut positional: Vec<String> = Vec::new();
    let mut i = 0;
    let mut only_positional = false;
    while i < args.len() {
        let a = &args[i];
        if only_positional || !a.starts_with('-') || a == "-" {
            positional.push(a.clone());
            i += 1;
            continue;
        }
        if a == "--" {
            only_positional = true;
            i += 1;
            continue;
        }
        let (name, inline): (String, Option<String>) = if let Some(rest) = a.strip_prefix("--") {
            match rest.split_once('=') {
                Some((n, v)) => (n.to_string(), Some(v.to_string())),
                None => (rest.to_string(), None),
            }
        } else {
            // shorthand
            let c = a[1..].chars().next().unwrap_or(' ');
            let long = match c {
                'B' => "builder",
                'b' => "buildpack",
                'e' => "env",
                'p' => "path",
                _ => return Err(format!("unknown shorthand flag in option position: {a}")),
            };
            let rest = &a[1 + c.len_utf8()..];
            (long.to_string(), (!rest.is_empty()).then(|| rest.trim_start_matches('=').to_string()))
        };
        let is_value = matches!(name.as_str(), "builder" | "path" | "pull-policy" | "cache" | "buildpack" | "env");
        let is_bool = matches!(name.as_str(), "trust-builder" | "trust-extra-buildpacks");
        if is_value {
            let v = match inline {
                Some(v) => v,
                None => {
                    i += 1;
                    args.get(i).cloned().ok_or_else(|| format!("flag --{name} needs an argument"))?
                }
            };
            match name.as_str() {
                "builder" => p.builder.push(v),
                "path" => p.path.push(v),
                "pull-policy" => p.pull_policy.push(v),
                "cache" => p.caches.push(v),
                "buildpack" => p.buildpacks.push(v),
                _ => p.env.push(v),
            }
        } else if is_bool {
            let on = inline.as_deref() != Some("false");
            if name == "trust-builder" {
                p.trust_builder = on;
            } else {
                p.trust_extra = on;
            }
        } else {
            return Err(format!("unknown flag in option position: {a}"));
        }
        i += 1;
    }
    if positional.len() != 1 {
        return Err(format!("expected exactly one image argument, found {positional:?}"));
    }
    p.image = positional.remove(0);
    Ok(p)
}

#[derive(Debug, Default, Clone, PartialEq)]
pub struct DockerRun {
    pub name: Vec<String>,
    pub platform: Vec<String>,
    pub entrypoint: Vec<String>,
    pub env: Vec<String>,
    pub publish: Vec<String>,
    pub mounts: Vec<String>,
    pub detach: bool,
    pub rm: bool,
    pub image: String,
    pub command: Vec<String>,
}

/// `docker run [OPTIONS] IMAGE [COMMAND] [ARG...]`: option parsing stops at the first positional.
pub fn parse_docker_run(args: &[String]) -> Result<DockerRun, String> {
    let mut d = DockerRun::default();
    let mut i = 0;
    while i < args.len() {
        let a = &args[i];
        if a == "--" {
            i += 1;
            break;
        }
        if !a.starts_with('-') || a == "-" {
            break;
        }
        let (name, inline): (String, Option<String>) = if let Some(rest) = a.strip_prefix("--") {
            match rest.split_once('=') {
                Some((n, v)) => (n.to_string(), Some(v.to_string())),
                None => (rest.to_string(), None),
            }
        } else {
            let c = a[1..].chars().next().unwrap_or(' ');
            let long = match c {
                'e' => "env",
                'p' => "publish",
                'd' => "detach",
                _ => return Err(format!("unknown shorthand flag in option position: {a}")),
            };
            let rest = &a[1 + c.len_utf8()..];
            (long.to_string(), (!rest.is_empty()).then(|| rest.to_string()))
        };
        match name.as_str() {
            "detach" => d.detach = inline.as_deref() != Some("false"),
            "rm" => d.rm = inline.as_deref() != Some("false"),
            "name" | "platform" | "entrypoint" | "env" | "publish" | "mount" => {
                let v = match inline {
                    Some(v) => v,
                    None => {
                        i += 1;
                        args.get(i).cloned().ok_or_else(|| format!("flag --{name} needs an argument"))?
                    }
                };
                match name.as_str() {
                    "name" => d.name.push(v),
                    "platform" => d.platform.push(v),
                    "entrypoint" => d.entrypoint.push(v),
                    "env" => d.env.push(v),
                    "publish" => d.publish.push(v),
                    _ => d.mounts.push(v),
                }
            }
            _ => return Err(format!("unknown flag in option position: {a}")),
        }
        i += 1;
    }
    d.image = args.get(i).cloned().ok_or("no image argument")?;
    d.command = args[i + 1..].to_vec();
    Ok(d)
}

fn split_kv(s: &str) -> (String, String) {
    match s.split_once('=') {
        Some((k, v)) => (k.to_string(), v.to_string()),
        None => (s.to_string(), String::new()),
    }
}

// ------------------------------------------------------------------ running one scenario process

#[derive(Clone, Debug, Deserialize)]
pub struct LogEntry {
    pub i: u64,
    pub nc: Option<u64>,
    pub prog: String,
    pub argv: Vec<String>,
    pub exit: i32,
    pub injected: bool,
    pub digest: Option<String>,
    /// for `pack build`: per --buildpack value that is a directory, (value, its buildpack.toml
    /// bytes as text, bin/build present)
    #[serde(default)]
    pub bp_dirs: Vec<(String, String, bool)>,
    /// resources ("images/<name>", "volumes/<name>", "containers/<name>") this command deleted
    #[serde(default)]
    pub removed: Vec<String>,
}

pub struct RunResult {
    pub exit: Option<i32>,
    pub positions: u32,
    pub log: Vec<LogEntry>,
    pub state: BTreeSet<String>,
    pub tmp_left: Vec<String>,
    pub fixture_digest_before: String,
    pub fixture_digest_after: String,
    pub expected_preprocessed_digests: BTreeMap<String, String>,
    pub fixture: PathBuf,
    pub tmp: PathBuf,
    pub stderr_tail: String,
}

pub const FOREIGN: [(&str, &str); 4] = [
    ("containers", "libcnbtest_foreignaaaaa"),
    ("images", "libcnbtest_foreignimage"),
    ("volumes", "libcnbtest_foreignimage.build-cache"),
    ("volumes", "unrelated-volume"),
];

fn bin_dir() -> PathBuf {
    pool::self_exe().parent().map_or_else(|| PathBuf::from("."), Path::to_path_buf)
}

fn list_state(dir: &Path) -> BTreeSet<String> {
    let mut s = BTreeSet::new();
    for kind in ["containers", "images", "volumes"] {
        if let Ok(rd) = std::fs::read_dir(dir.join("state").join(kind)) {
            for e in rd.flatten() {
                s.insert(format!("{kind}/{}", e.file_name().to_string_lossy()));
            }
        }
    }
    s
}

pub fn run_once(s: &Scenario, scratch: &Path) -> Result<RunResult, String> {
    let io = |e: std::io::Error| e.to_string();
    // the crate's Cargo target directory is kept warm across runs of this worker
    let warm = scratch.with_extension("target-cache");
    let uses_own = chain_of(s).iter().any(|n| n.cfg.own_buildpack.is_some());
    if uses_own && scratch.join("crate/target").is_dir() && !warm.exists() {
        let _ = std::fs::rename(scratch.join("crate/target"), &warm);
    }
    let _ = std::fs::remove_dir_all(scratch);
    let stub = scratch.join("stub");
    let tmp = scratch.join("tmp");
    let krate = scratch.join("crate");
    let fixture = krate.join("fixtures/app");
    let path_dir = scratch.join("bin");
    for d in [&stub, &tmp, &fixture.join("sub dir"), &path_dir] {
        std::fs::create_dir_all(d).map_err(io)?;
    }
    write_fixture_files(&fixture).map_err(io)?;
    if s.fixture_uncopyable {
        std::os::unix::fs::symlink("does/not/exist", fixture.join("broken-link")).map_err(io)?;
    }
    std::fs::write(krate.join("Cargo.toml"), "[package]\nname = \"fixture-crate\"\nversion = \"0.0.0\"\nedition = \"2021\"\n\n[workspace]\n").map_err(io)?;
    if uses_own {
        std::fs::create_dir_all(krate.join("src")).map_err(io)?;
        std::fs::write(krate.join("src/main.rs"), if s.crate_broken { "fn main( {\n" } else { "fn main() {\n    println!(\"own buildpack\");\n}\n" }).map_err(io)?;
        std::fs::write(krate.join("buildpack.toml"), OWN_BUILDPACK_TOML).map_err(io)?;
        if warm.is_dir() {
            let _ = std::fs::rename(&warm, krate.join("target"));
        }
    }
    for name in ["docker", "pack"] {
        std::os::unix::fs::symlink(bin_dir().join("stubcli"), path_dir.join(name)).map_err(io)?;
    }
    for (kind, name) in FOREIGN {
        let p = stub.join("state").join(kind);
        std::fs::create_dir_all(&p).map_err(io)?;
        std::fs::write(p.join(name), b"").map_err(io)?;
    }
    if s.rmi_mode != 0 {
        std::fs::write(stub.join("rmi_mode"), s.rmi_mode.to_string()).map_err(io)?;
    }
    if let Fault::CommandFailsAt(k) = s.fault {
        std::fs::write(stub.join("fail_noncleanup_at"), k.to_string()).map_err(io)?;
    }
    // what a preprocessed copy must look like, per distinct preprocessor content
    let mut expected_pre = BTreeMap::new();
    let chain: Vec<&BuildNode> = chain_of(s);
    for n in &chain {
        if let Some(content) = &n.cfg.preprocessor {
            let model = scratch.join("model-copy");
            let _ = std::fs::remove_dir_all(&model);
            std::fs::create_dir_all(model.join("sub dir")).map_err(io)?;
            write_fixture_files(&model).map_err(io)?;
            std::fs::write(model.join("added-by-preprocessor.txt"), content).map_err(io)?;
            preprocessor_edit(&model, n.cfg.preprocessor_edit).map_err(io)?;
            expected_pre.insert(format!("{}#{}", content, n.cfg.preprocessor_edit), dir_digest(&model));
            let _ = std::fs::remove_dir_all(&model);
        }
    }
    // host directories for bind mounts: `current` is a link to `releases/v2`
    std::fs::create_dir_all(scratch.join("mnt/releases/v2")).map_err(io)?;
    let _ = std::os::unix::fs::symlink("releases/v2", scratch.join("mnt/current"));
    // a different current directory with a decoy of the same relative shape
    let elsewhere = scratch.join("elsewhere");
    std::fs::create_dir_all(elsewhere.join("fixtures/app")).map_err(io)?;
    std::fs::write(elsewhere.join("fixtures/app/DECOY"), "not the fixture").map_err(io)?;
    let fixture_digest_before = dir_digest(&fixture);
    let scen_path = scratch.join("scenario.json");
    std::fs::write(&scen_path, serde_json::to_string(s).map_err(|e| e.to_string())?).map_err(io)?;
    let mut cmd = Command::new(bin_dir().join("simtest"));
    cmd.arg(&scen_path).env_clear();
    let mut path = format!("{}:/usr/bin:/bin", path_dir.display());
    if uses_own {
        // packaging the crate's own buildpack runs cargo
        for k in ["HOME", "CARGO_HOME", "RUSTUP_HOME", "RUSTUP_TOOLCHAIN"] {
            if let Some(v) = std::env::var_os(k) {
                cmd.env(k, v);
            }
        }
        cmd.env("CARGO_NET_OFFLINE", "true");
        // cargo sets CARGO for the tests it runs; libcnb-test relies on it
        if let Some(cargo) = std::env::var_os("PATH").and_then(|paths| std::env::split_paths(&paths).map(|p| p.join("cargo")).find(|p| p.is_file())) {
            cmd.env("CARGO", &cargo);
            // Stand-in for a toolchain that has the default (musl) target installed: `cargo build
            // --target x86_64-unknown-linux-musl` is served by the installed gnu target and its
            // output mirrored to where the musl build would have put it.
            let wrapper = format!(
                "#!/bin/sh\nREAL='{}'\nif [ \"$1\" = build ]; then\n  \"$REAL\" $(echo \"$@\" | sed 's/x86_64-unknown-linux-musl/x86_64-unknown-linux-gnu/') || exit $?\n  for prof in debug release; do\n    if [ -d target/x86_64-unknown-linux-gnu/$prof ]; then\n      mkdir -p target/x86_64-unknown-linux-musl/$prof && cp -f target/x86_64-unknown-linux-gnu/$prof/fixture-crate target/x86_64-unknown-linux-musl/$prof/ || exit 1\n    fi\n  done\n  exit 0\nfi\nexec \"$REAL\" \"$@\"\n",
                cargo.display()
            );
            std::fs::write(path_dir.join("cargo"), wrapper).map_err(io)?;
            // ... and the C toolchain libcnb's cross-compile assistance looks for
            let _ = std::os::unix::fs::symlink("/usr/bin/gcc", path_dir.join("musl-gcc"));
            use std::os::unix::fs::PermissionsExt;
            std::fs::set_permissions(path_dir.join("cargo"), std::fs::Permissions::from_mode(0o755)).map_err(io)?;
        }
        if let Some(p) = std::env::var_os("PATH") {
            path = format!("{}:{}", path_dir.display(), p.to_string_lossy());
        }
    }
    cmd.env("PATH", path)
        .env("TMPDIR", &tmp)
        .env("VERIF_MNT", scratch.join("mnt"))
        .env("CARGO_MANIFEST_DIR", &krate)
        .env("VERIF_STUB_DIR", &stub)
        .env("RUST_BACKTRACE", "0")
        .current_dir(if s.cwd_elsewhere { &elsewhere } else { &krate })
        .stdin(Stdio::null());
    // a scenario that does not end is killed (exit status None: judged as ended abnormally)
    let (out, _killed) = crate::pool::output_limited(&mut cmd).map_err(|e| format!("spawn simtest: {e}"))?;
    let stdout = String::from_utf8_lossy(&out.stdout);
    let positions = stdout
        .lines()
        .find_map(|l| l.strip_prefix("positions="))
        .and_then(|n| n.parse().ok())
        .unwrap_or(0);
    let log_text = std::fs::read_to_string(stub.join("log.jsonl")).unwrap_or_default();
    let mut log = Vec::new();
    for l in log_text.lines() {
        log.push(serde_json::from_str::<LogEntry>(l).map_err(|e| format!("stub log: {e}"))?);
    }
    let tmp_left: Vec<String> = std::fs::read_dir(&tmp)
        .map(|rd| rd.flatten().map(|e| e.file_name().to_string_lossy().into_owned()).collect())
        .unwrap_or_default();
    let stderr = String::from_utf8_lossy(&out.stderr);
    Ok(RunResult {
        exit: out.status.code(),
        positions,
        log,
        state: list_state(&stub),
        tmp_left,
        fixture_digest_before,
        fixture_digest_after: dir_digest(&fixture),
        expected_preprocessed_digests: expected_pre,
        fixture,
        tmp,
        stderr_tail: stderr.lines().rev().take(4).collect::<Vec<_>>().join(" | "),
    })
}

// ------------------------------------------------------------------ oracles over the history

fn mentions(e: &LogEntry, name: &str) -> bool {
    e.argv.iter().any(|a| a == name || a.ends_with(&format!("name={name}")))
}

pub fn judge_c16(s: &Scenario, r: &RunResult) -> Vec<String> {
    let mut v = Vec::new();
    match r.exit {
        Some(0 | 101) => {}
        other => v.push(format!("scenario process ended abnormally (status {other:?}): cleanup cannot have completed; {}", r.stderr_tail)),
    }
    // nothing leaked, nothing foreign removed
    let foreign: BTreeSet<String> = FOREIGN.iter().map(|(k, n)| format!("{k}/{n}")).collect();
    for left in &r.state {
        // an image the daemon refused to delete stays (its one removal is still checked below)
        if s.rmi_mode == 2 && left.starts_with("images/") {
            continue;
        }
        if !foreign.contains(left) {
            v.push(format!("resource left behind after the test ended: {left}"));
        }
    }
    for f in &foreign {
        if !r.state.contains(f) {
            v.push(format!("a resource the run did not create was removed: {f}"));
        }
    }
    if !r.tmp_left.is_empty() {
        v.push(format!("temporary directories left behind in TMPDIR: {:?}", r.tmp_left));
    }
    if r.fixture_digest_before != r.fixture_digest_after {
        v.push("the fixture app directory was modified".into());
    }
    // per-resource ordering: force-removed exactly once, after the last use
    let removal = |e: &LogEntry| {
        e.prog == "docker"
            && match e.argv.first().map(String::as_str) {
                Some("rm" | "rmi") => true,
                Some("volume") => matches!(e.argv.get(1).map(String::as_str), Some("rm" | "remove")),
                _ => false,
            }
    };
    for e in r.log.iter().filter(|e| removal(e)) {
        if !e.argv.iter().any(|a| a == "--force") {
            v.push(format!("removal without --force: docker {:?}", e.argv));
        }
    }
    let mut containers: Vec<String> = Vec::new();
    let mut images: Vec<String> = Vec::new();
    let mut volumes: Vec<String> = Vec::new();
    for e in &r.log {
        if e.prog == "docker" && e.argv.first().map(String::as_str) == Some("run") {
            if let Ok(d) = parse_docker_run(&e.argv[1..]) {
                if d.detach {
                    containers.extend(d.name);
                }
            }
        }
        if e.prog == "pack" && e.argv.first().map(String::as_str) == Some("build") {
            if let Ok(p) = parse_pack_build(&e.argv[1..]) {
                if !images.contains(&p.image) {
                    images.push(p.image.clone());
                }
                for c in p.caches {
                    if let Some(n) = c.split("name=").nth(1) {
                        if !volumes.contains(&n.to_string()) {
                            volumes.push(n.to_string());
                        }
                    }
                }
            }
        }
    }
    let mut check = |what: &str, name: &str, sub: &[&str]| {
        // a removal of this resource: a removal command that names it, or any command that
        // actually deleted it (e.g. `rmi <image id>` takes every name of that image with it)
        let kind = match sub[0] {
            "rm" => "containers",
            "rmi" => "images",
            _ => "volumes",
        };
        let removals: Vec<u64> = r
            .log
            .iter()
            .filter(|e| (removal(e) && sub.contains(&e.argv[0].as_str()) && e.argv.iter().any(|a| a == name)) || e.removed.iter().any(|x| *x == format!("{kind}/{name}")))
            .map(|e| e.i)
            .collect();
        let last_use = r
            .log
            .iter()
            .filter(|e| !removal(e) && mentions(e, name))
            .map(|e| e.i)
            .max()
            .unwrap_or(0);
        if removals.len() != 1 {
            v.push(format!("{what} {name} was force-removed {} times (expected exactly once)", removals.len()));
        } else if removals[0] < last_use {
            v.push(format!("{what} {name} was removed (command #{}) before its last use (command #{last_use})", removals[0]));
        }
    };
    for c in &containers {
        check("container", c, &["rm"]);
    }
    for i in &images {
        check("image", i, &["rmi"]);
    }
    for vol in &volumes {
        check("volume", vol, &["volume"]);
    }
    // an image is in use as long as a detached container created from it exists: the image's
    // removal must come after the removal of every such container
    let first_removal = |kind: &str, name: &str, sub: &str| -> Option<u64> {
        r.log
            .iter()
            .filter(|e| (removal(e) && e.argv[0] == sub && e.argv.iter().any(|a| a == name)) || e.removed.iter().any(|x| *x == format!("{kind}/{name}")))
            .map(|e| e.i)
            .min()
    };
    for e in &r.log {
        if e.prog == "docker" && e.argv.first().map(String::as_str) == Some("run") && e.exit == 0 {
            if let Ok(d) = parse_docker_run(&e.argv[1..]) {
                if let (true, Some(name)) = (d.detach, d.name.first()) {
                    if let (Some(rm), Some(rmi)) = (first_removal("containers", name, "rm"), first_removal("images", &d.image, "rmi")) {
                        if rmi < rm {
                            v.push(format!("image {} was removed (command #{rmi}) while container {name} created from it still existed (removed by command #{rm})", d.image));
                        }
                    }
                }
            }
        }
    }
    v
}

/// All build configurations of the scenario in execution order: each root followed by its
/// rebuilds, root after root.
fn chain_of(s: &Scenario) -> Vec<&BuildNode> {
    chain_with_roots(s).into_iter().map(|(n, _)| n).collect()
}

/// ... together with the index of the root (independent build, own image) each belongs to.
fn chain_with_roots(s: &Scenario) -> Vec<(&BuildNode, usize)> {
    fn walk<'a>(root: &'a BuildNode, ri: usize, chain: &mut Vec<(&'a BuildNode, usize)>) {
        let mut cur = Some(root);
        let mut nested: Vec<(&'a BuildNode, usize)> = Vec::new();
        while let Some(n) = cur {
            chain.push((n, ri));
            for st in &n.steps {
                if let Step::NestedBuild { id, node } = st {
                    nested.push((&**node, *id));
                }
            }
            cur = n.steps.iter().find_map(|st| if let Step::Rebuild(b) = st { Some(&**b) } else { None });
        }
        for (node, id) in nested {
            walk(node, id, chain);
        }
    }
    let mut chain: Vec<(&BuildNode, usize)> = Vec::new();
    for (ri, root) in std::iter::once(&s.root).chain(s.more_roots.iter()).enumerate() {
        walk(root, ri, &mut chain);
    }
    chain
}

/// The environment pair by which the pack builds of one independent build (root) are told
/// apart in the recorded history.
pub const ROOT_MARKER: &str = "VERIF_ROOT";

pub fn judge_c17(s: &Scenario, r: &RunResult) -> Vec<String> {
    let mut v = Vec::new();
    let all = chain_with_roots(s);
    let pack_builds: Vec<&LogEntry> = r
        .log
        .iter()
        .filter(|e| e.prog == "pack" && e.argv.first().map(String::as_str) == Some("build"))
        .collect();
    let root_of_build = |e: &LogEntry| -> Option<usize> {
        e.argv.windows(2).find_map(|w| (w[0] == "--env").then(|| w[1].strip_prefix("VERIF_ROOT=")).flatten().and_then(|x| x.parse().ok()))
    };
    for e in &pack_builds {
        if root_of_build(e).is_none() {
            v.push(format!("pack build without the {ROOT_MARKER} pair every configuration carries: argv {:?}", e.argv));
        }
    }
    let docker_runs: Vec<&LogEntry> = r
        .log
        .iter()
        .filter(|e| e.prog == "docker" && e.argv.first().map(String::as_str) == Some("run"))
        .collect();
    // every root (independent `TestRunner::build`, its own test thread) is judged on its own:
    // its configurations in order against its pack builds, its containers against the docker
    // runs that use its image
    let mut claimed: BTreeSet<u64> = BTreeSet::new();
    let mut root_ids: Vec<usize> = all.iter().map(|(_, ri)| *ri).collect();
    root_ids.dedup();
    root_ids.sort_unstable();
    root_ids.dedup();
    let several = root_ids.len() > 1;
    for ri in root_ids {
        let chain: Vec<&BuildNode> = all.iter().filter(|(_, x)| *x == ri).map(|(n, _)| *n).collect();
        let builds: Vec<&LogEntry> = pack_builds.iter().copied().filter(|e| root_of_build(e) == Some(ri)).collect();
        let image = builds.first().and_then(|e| parse_pack_build(&e.argv[1..]).ok()).map(|p| p.image);
        let runs: Vec<&LogEntry> = docker_runs
            .iter()
            .copied()
            .filter(|e| parse_docker_run(&e.argv[1..]).is_ok_and(|d| Some(&d.image) == image.as_ref()))
            .collect();
        claimed.extend(runs.iter().map(|e| e.i));
        // without an injected fault the first configuration of every independent build reaches
        // pack, whatever happened to the builds before it in the same process — unless its own
        // preparation cannot succeed (fixture cannot be copied, own crate does not compile)
        if s.fault == Fault::None && builds.is_empty() && ri <= s.more_roots.len() {
            if let Some(first) = chain.first() {
                let prep_fails = (s.fixture_uncopyable && first.cfg.preprocessor.is_some()) || (s.crate_broken && first.cfg.own_buildpack.is_some());
                if !prep_fails {
                    v.push(format!("build {ri}: no pack build invocation for its build configuration"));
                }
            }
        }
        v.extend(judge_c17_root(ri, &chain, &builds, &runs, r).into_iter().map(|l| if several { format!("build {ri}: {l}") } else { l }));
    }
    for e in &docker_runs {
        if !claimed.contains(&e.i) {
            v.push(format!("docker run that uses none of the images the builds produced (or does not parse): argv {:?}", e.argv));
        }
    }
    if r.fixture_digest_before != r.fixture_digest_after {
        v.push("the fixture app directory was modified".into());
    }
    // Without an injected fault, and with nothing in the scenario that makes libcnb-test panic
    // by design, every configuration is carried out and the test process ends normally.
    if s.fault == Fault::None && r.exit != Some(0) && !panics_by_design(s) {
        v.push(format!(
            "the test process panicked although no configuration of this scenario can make it (so not every configuration reached pack/docker): exit {:?}; {}",
            r.exit, r.stderr_tail
        ));
    }
    for e in r.log.iter().filter(|e| e.prog == "docker" && e.argv.first().map(String::as_str) == Some("exec")) {
        if e.argv.len() != 4 || e.argv[2] != "launcher" || !e.argv[1].starts_with("libcnbtest_") {
            v.push(format!("docker exec: argv {:?}, expected <container> launcher <command>", e.argv));
        }
    }
    v
}

/// Does the scenario contain something libcnb-test answers with a panic by design (pack result
/// against the expectation, an address asked for a port that was not exposed, preparation that
/// cannot succeed)?
fn panics_by_design(s: &Scenario) -> bool {
    fn csteps(steps: &[CStep], ports: &[u16]) -> bool {
        steps.iter().any(|cs| match cs {
            CStep::AddressForPort(p) => !ports.contains(p),
            CStep::Nested { cfg, steps } => csteps(steps, &cfg.ports),
            _ => false,
        })
    }
    chain_with_roots(s).iter().any(|(n, _)| {
        n.cfg.expect_failure != n.cfg.pack_fails
            || (s.fixture_uncopyable && n.cfg.preprocessor.is_some())
            || (s.crate_broken && n.cfg.own_buildpack.is_some())
            || n.steps.iter().any(|st| matches!(st, Step::StartContainer { cfg, steps } if csteps(steps, &cfg.ports)))
            // no image after a failed pack build: starting anything from it fails
            || (n.cfg.pack_fails && n.steps.iter().any(|st| matches!(st, Step::StartContainer { .. } | Step::RunShell(_))))
    })
}

fn judge_c17_root(ri: usize, chain: &[&BuildNode], builds: &[&LogEntry], runs: &[&LogEntry], r: &RunResult) -> Vec<String> {
    let mut v = Vec::new();
    if builds.len() > chain.len() {
        v.push(format!("{} pack build invocations for {} build configurations", builds.len(), chain.len()));
    }
    let mut image0: Option<String> = None;
    for (bi, e) in builds.iter().enumerate() {
        let Some(node) = chain.get(bi) else { break };
        let c = &node.cfg;
        let p = match parse_pack_build(&e.argv[1..]) {
            Ok(p) => p,
            Err(err) => {
                v.push(format!("pack build #{bi}: argv does not parse under pack's option grammar: {err}; argv {:?}", e.argv));
                continue;
            }
        };
        let img = image0.get_or_insert(p.image.clone()).clone();
        if p.image != img || !p.image.starts_with("libcnbtest_") {
            v.push(format!("pack build #{bi}: image {:?} (first build used {:?})", p.image, img));
        }
        if p.builder != vec![c.builder.clone()] {
            v.push(format!("pack build #{bi}: builder {:?}, configured {:?}", p.builder, c.builder));
        }
        match c.own_buildpack {
            None => {
                if p.buildpacks != c.buildpacks {
                    v.push(format!("pack build #{bi}: buildpacks {:?}, configured (in order) {:?}", p.buildpacks, c.buildpacks));
                }
            }
            Some((at, _)) => {
                // the crate's own buildpack: a packaged directory under TMPDIR at that position
                let at = at.min(c.buildpacks.len());
                let mut rest = p.buildpacks.clone();
                let own = if at < rest.len() { Some(rest.remove(at)) } else { None };
                if rest != c.buildpacks {
                    v.push(format!("pack build #{bi}: buildpacks {:?}, configured (in order, own buildpack at {at}) {:?}", p.buildpacks, c.buildpacks));
                }
                match own {
                    Some(dir) if Path::new(&dir).starts_with(&r.tmp) => match e.bp_dirs.iter().find(|(d, _, _)| *d == dir) {
                        Some((_, toml, has_build)) => {
                            if toml != OWN_BUILDPACK_TOML || !has_build {
                                v.push(format!("pack build #{bi}: the packaged own buildpack at {dir:?} is incomplete (descriptor identical: {}, bin/build: {has_build})", toml == OWN_BUILDPACK_TOML));
                            }
                        }
                        None => v.push(format!("pack build #{bi}: the own buildpack reference {dir:?} is not a directory when pack runs")),
                    },
                    other => v.push(format!("pack build #{bi}: own buildpack reference {other:?} is not a packaged directory under TMPDIR")),
                }
            }
        }
        let mut want_env: BTreeMap<String, String> = c.env.iter().cloned().collect();
        if c.pack_fails {
            want_env.insert("VERIF_PACK_FAILS".into(), "1".into());
        }
        want_env.insert(ROOT_MARKER.into(), ri.to_string());
        let got_pairs: Vec<(String, String)> = p.env.iter().map(|kv| split_kv(kv)).collect();
        let got_env: BTreeMap<String, String> = got_pairs.iter().cloned().collect();
        if got_env != want_env || got_pairs.len() != want_env.len() {
            v.push(format!("pack build #{bi}: env pairs {got_pairs:?}, configured {want_env:?} (each exactly once)"));
        }
        let want_caches = vec![
            format!("type=build;format=volume;name={img}.build-cache"),
            format!("type=launch;format=volume;name={img}.launch-cache"),
        ];
        if p.caches != want_caches {
            v.push(format!("pack build #{bi}: cache options {:?}", p.caches));
        }
        // the app path
        match (&c.preprocessor, p.path.as_slice()) {
            (None, [path]) => {
                if Path::new(path) != r.fixture {
                    v.push(format!("pack build #{bi}: --path {path:?}, expected the fixture itself {:?}", r.fixture));
                }
                if e.digest.as_deref() != Some(r.fixture_digest_before.as_str()) {
                    v.push(format!("pack build #{bi}: the app directory handed to pack differs from the fixture"));
                }
            }
            (Some(content), [path]) => {
                if Path::new(path) == r.fixture || !Path::new(path).starts_with(&r.tmp) {
                    v.push(format!("pack build #{bi}: with a preprocessor the app path must be a private copy under TMPDIR, got {path:?}"));
                }
                if e.digest.as_deref()
                    != r.expected_preprocessed_digests.get(&format!("{}#{}", content, c.preprocessor_edit)).map(String::as_str)
                {
                    v.push(format!("pack build #{bi}: the app copy handed to pack is not fixture + preprocessor changes"));
                }
            }
            (_, other) => v.push(format!("pack build #{bi}: --path given {} times", other.len())),
        }
    }
    // container configurations, in execution order
    let mut want_runs: Vec<(&ContainerCfg, usize)> = Vec::new();
    let mut want_shell: Vec<&String> = Vec::new();
    for (bi, n) in chain.iter().enumerate() {
        for st in &n.steps {
            match st {
                Step::StartContainer { cfg, steps } => {
                    want_runs.push((cfg, bi));
                    for cs in steps {
                        if let CStep::Nested { cfg, .. } = cs {
                            want_runs.push((cfg, bi));
                        }
                    }
                }
                Step::RunShell(c) => want_shell.push(c),
                _ => {}
            }
        }
    }
    let mut di = 0;
    let mut si = 0;
    for e in runs {
        let d = match parse_docker_run(&e.argv[1..]) {
            Ok(d) => d,
            Err(err) => {
                v.push(format!("docker run: argv does not parse under docker's option grammar: {err}; argv {:?}", e.argv));
                continue;
            }
        };
        if d.detach {
            let Some((cfg, _)) = want_runs.get(di) else {
                v.push("more detached docker run invocations than start_container calls".into());
                break;
            };
            di += 1;
            let want_entry: Vec<String> = cfg.entrypoint.iter().cloned().collect();
            if d.entrypoint != want_entry {
                v.push(format!("docker run: entrypoint {:?}, configured {:?}", d.entrypoint, cfg.entrypoint));
            }
            let got_pairs: Vec<(String, String)> = d.env.iter().map(|kv| split_kv(kv)).collect();
            let got_env: BTreeMap<String, String> = got_pairs.iter().cloned().collect();
            let want_env: BTreeMap<String, String> = cfg.env.iter().cloned().collect();
            if got_env != want_env || got_pairs.len() != want_env.len() {
                v.push(format!("docker run: env {got_pairs:?}, configured {want_env:?}"));
            }
            let got_ports: BTreeSet<String> = d.publish.iter().cloned().collect();
            let want_ports: BTreeSet<String> = cfg.ports.iter().map(|p| format!("127.0.0.1::{p}")).collect();
            if got_ports != want_ports || d.publish.len() != want_ports.len() {
                v.push(format!("docker run: published ports {:?}, configured {:?}", d.publish, cfg.ports));
            }
            let got_mounts: BTreeSet<Vec<(String, String)>> = d
                .mounts
                .iter()
                .map(|m| {
                    let mut kv: Vec<(String, String)> = m.split(',').map(split_kv).collect();
                    kv.sort();
                    kv
                })
                .collect();
            let want_mounts: BTreeSet<Vec<(String, String)>> = cfg
                .mounts
                .iter()
                .map(|(s, t)| {
                    let mnt = r.tmp.parent().map_or_else(|| PathBuf::from("/"), |p| p.join("mnt"));
                    let mut kv = vec![
                        ("type".to_string(), "bind".to_string()),
                        ("source".to_string(), scenario::resolve_mount_source(s, &mnt)),
                        ("target".to_string(), t.clone()),
                    ];
                    kv.sort();
                    kv
                })
                .collect();
            if got_mounts != want_mounts || d.mounts.len() != want_mounts.len() {
                v.push(format!("docker run: bind mounts {:?}, configured {:?}", d.mounts, cfg.mounts));
            }
            let want_cmd: Vec<String> = cfg.command.clone().unwrap_or_default();
            if d.command != want_cmd {
                v.push(format!("docker run: command {:?}, configured {:?}", d.command, cfg.command));
            }
            if d.rm {
                v.push("docker run: detached container started with --rm".into());
            }
        } else {
            let Some(cmd) = want_shell.get(si) else {
                v.push("more one-off docker run invocations than run_shell_command calls".into());
                break;
            };
            si += 1;
            if d.entrypoint != vec!["launcher".to_string()] || d.command != vec![(*cmd).clone()] || !d.rm {
                v.push(format!("docker run (shell): entrypoint {:?} command {:?} rm {}, expected launcher {:?} --rm", d.entrypoint, d.command, d.rm, cmd));
            }
        }
    }
    v
}

// ------------------------------------------------------------------ worker and driver

#[derive(Clone, Debug, Serialize, Deserialize)]
pub struct E4Replay {
    pub engine: String,
    pub property: String,
    pub seed: u64,
    pub index: u64,
    pub scenario: Scenario,
    pub detail: Vec<String>,
    pub signature: String,
}

#[derive(Clone, Debug, Default, Serialize, Deserialize)]
pub struct E4Summary {
    pub scenarios: u64,
    pub runs: u64,
    pub panic_runs: u64,
    pub cmdfail_runs: u64,
    pub stub_invocations: u64,
    pub cells: BTreeSet<String>,
    pub nontrivial: BTreeSet<String>,
    pub probes: BTreeMap<String, u64>,
    pub violations: Vec<E4Replay>,
    pub harness_errors: Vec<String>,
    pub samples: Vec<serde_json::Value>,
    pub log_hashes: Vec<(u64, u64)>,
}

fn arg_after(args: &[String], flag: &str) -> Option<String> {
    args.iter().position(|a| a == flag).and_then(|i| args.get(i + 1).cloned())
}

fn harness_fail(msg: &str) -> ! {
    eprintln!("HARNESS-ERROR: {msg}");
    std::process::exit(2);
}

fn signature(property: &str, detail: &[String]) -> String {
    let first: String = detail
        .first()
        .map(|l| {
            l.split("libcnbtest_")
                .next()
                .unwrap_or(l)
                .split("[\".tmp")
                .next()
                .unwrap_or(l)
                .chars()
                .filter(|c| !c.is_ascii_digit())
                .take(70)
                .collect()
        })
        .unwrap_or_default();
    format!("{property}:{first}")
}

fn judge(property: &str, s: &Scenario, r: &RunResult) -> Vec<String> {
    if property == "C16" {
        judge_c16(s, r)
    } else {
        judge_c17(s, r)
    }
}

fn shape(s: &Scenario, r: &RunResult) -> String {
    let kinds: Vec<String> = r
        .log
        .iter()
        .map(|e| format!("{}{}", &e.prog[..1], e.argv.first().map_or("", String::as_str)))
        .collect();
    format!(
        "{}|exit{:?}|{}",
        match s.fault {
            Fault::None => "none",
            Fault::PanicAt(_) => "panic",
            Fault::CommandFailsAt(_) => "cmdfail",
        },
        r.exit,
        kinds.join(",")
    )
}

fn simplify(s: &Scenario) -> Vec<Scenario> {
    let mut out = Vec::new();
    // drop steps, drop nested builds, clear configuration pieces
    fn variants(n: &BuildNode) -> Vec<BuildNode> {
        let mut v = Vec::new();
        for i in 0..n.steps.len() {
            let mut c = n.clone();
            c.steps.remove(i);
            v.push(c);
        }
        for (i, st) in n.steps.iter().enumerate() {
            match st {
                Step::NestedBuild { id, node } => {
                    for nb in variants(node) {
                        let mut c = n.clone();
                        c.steps[i] = Step::NestedBuild { id: *id, node: Box::new(nb) };
                        v.push(c);
                    }
                }
                Step::Rebuild(b) => {
                    for nb in variants(b) {
                        let mut c = n.clone();
                        c.steps[i] = Step::Rebuild(Box::new(nb));
                        v.push(c);
                    }
                }
                Step::StartContainer { cfg, steps } => {
                    for j in 0..steps.len() {
                        let mut c = n.clone();
                        let mut ns = steps.clone();
                        ns.remove(j);
                        c.steps[i] = Step::StartContainer { cfg: cfg.clone(), steps: ns };
                        v.push(c);
                    }
                    let plain = ContainerCfg {
                        env_style: 0,
                        entrypoint: None,
                        command: None,
                        env: vec![],
                        ports: cfg.ports.clone(),
                        mounts: vec![],
                    };
                    if plain != *cfg {
                        let mut c = n.clone();
                        c.steps[i] = Step::StartContainer { cfg: plain, steps: steps.clone() };
                        v.push(c);
                    }
                }
                _ => {}
            }
        }
        let mut c = n.clone();
        c.cfg.env.clear();
        c.cfg.buildpacks.clear();
        if c != *n {
            v.push(c);
        }
        let mut c = n.clone();
        c.cfg.preprocessor = None;
        if c != *n {
            v.push(c);
        }
        let mut c = n.clone();
        c.cfg.own_buildpack = None;
        if c != *n {
            v.push(c);
        }
        v
    }
    for root in variants(&s.root) {
        out.push(Scenario { root, ..s.clone() });
    }
    out
}

pub fn worker(args: &[String]) -> i32 {
    let id = arg_after(args, "--id").unwrap_or_else(|| "x".into());
    let property = arg_after(args, "--property").unwrap_or_else(|| "C16".into());
    let scratch = crate::scratch_root().join(format!("e4-{id}"));
    std::fs::create_dir_all(&scratch).unwrap_or_else(|e| harness_fail(&format!("scratch: {e}")));
    if let Some(file) = arg_after(args, "--minimise").or_else(|| arg_after(args, "--replay")) {
        let text = std::fs::read_to_string(&file).unwrap_or_else(|e| harness_fail(&e.to_string()));
        let mut rep: E4Replay = serde_json::from_str(&text).unwrap_or_else(|e| harness_fail(&e.to_string()));
        let prop = rep.property.clone();
        let run = |s: &Scenario| -> Vec<String> {
            match run_once(s, &scratch.join("w")) {
                Ok(r) => judge(&prop, s, &r),
                Err(e) => harness_fail(&e),
            }
        };
        if args.iter().any(|a| a == "--replay") {
            let d = run(&rep.scenario);
            println!("RESULT {}", json!({"reproduced": !d.is_empty() && signature(&prop, &d) == rep.signature, "detail": d}));
        } else {
            let mut progress = true;
            let mut budget = 120;
            while progress && budget > 0 {
                progress = false;
                for c in simplify(&rep.scenario) {
                    budget -= 1;
                    // a simpler tree has fewer positions: try the same and all earlier fault points
                    let d = run(&c);
                    if !d.is_empty() && signature(&prop, &d) == rep.signature {
                        rep.scenario = c;
                        rep.detail = d;
                        progress = true;
                        break;
                    }
                    if budget == 0 {
                        break;
                    }
                }
            }
            println!("RESULT {}", serde_json::to_string(&rep).unwrap_or_default());
        }
        let _ = std::fs::remove_dir_all(&scratch);
        return 0;
    }
    let from: u64 = arg_after(args, "--from").and_then(|s| s.parse().ok()).unwrap_or(0);
    let to: u64 = arg_after(args, "--to").and_then(|s| s.parse().ok()).unwrap_or(0);
    let keep_hashes = args.iter().any(|a| a == "--eventlog");
    let mut sum = E4Summary::default();
    for i in from..to {
        if sum.violations.len() >= 3 {
            break;
        }
        let seed = run_seed(crate::global_seed(), "e4", i);
        let mut base = scenario::generate(seed);
        if property != "C16" {
            // a fixture that cannot be copied ends the build before any command is issued
            base.fixture_uncopyable = false;
        }
        sum.scenarios += 1;
        let r0 = match run_once(&base, &scratch.join("w")) {
            Ok(r) => r,
            Err(e) => {
                sum.harness_errors.push(format!("scenario {i}: {e}"));
                continue;
            }
        };
        let noncleanup = r0.log.iter().filter_map(|e| e.nc).max().unwrap_or(0) as u32;
        let mut plans: Vec<Fault> = vec![Fault::None];
        plans.extend((0..r0.positions).map(Fault::PanicAt));
        plans.extend((1..=noncleanup).map(Fault::CommandFailsAt));
        for fault in plans {
            let s = Scenario { fault: fault.clone(), ..base.clone() };
            let r = if fault == Fault::None {
                run_once(&s, &scratch.join("w"))
            } else {
                run_once(&s, &scratch.join("w"))
            };
            let r = match r {
                Ok(r) => r,
                Err(e) => {
                    sum.harness_errors.push(format!("scenario {i} {fault:?}: {e}"));
                    continue;
                }
            };
            sum.runs += 1;
            match fault {
                Fault::PanicAt(_) => sum.panic_runs += 1,
                Fault::CommandFailsAt(_) => sum.cmdfail_runs += 1,
                Fault::None => {}
            }
            sum.stub_invocations += r.log.len() as u64;
            let cell = shape(&s, &r);
            if r.log.len() >= 4 {
                sum.nontrivial.insert(cell.clone());
            }
            sum.cells.insert(cell);
            if r.exit == Some(101) {
                *sum.probes.entry("scenario_ended_by_panic".into()).or_insert(0) += 1;
            }
            if std::env::var_os("VERIF_E4_DEBUG").is_some() && fault == Fault::None && r.exit == Some(101) {
                eprintln!("DEBUG scenario {i} own={:?} broken={} uncopyable={} exit={:?} stderr={}", chain_of(&s).iter().map(|n| n.cfg.own_buildpack).collect::<Vec<_>>(), s.crate_broken, s.fixture_uncopyable, r.exit, r.stderr_tail);
            }
            if r.log.iter().any(|e| !e.bp_dirs.is_empty()) {
                *sum.probes.entry("own_buildpack_packaged_and_handed_to_pack".into()).or_insert(0) += 1;
            }
            if s.crate_broken && chain_of(&s).iter().any(|n| n.cfg.own_buildpack.is_some()) && r.exit == Some(101) {
                *sum.probes.entry("own_buildpack_packaging_failed".into()).or_insert(0) += 1;
            }
            if s.fixture_uncopyable && r.exit == Some(101) && !r.log.iter().any(|e| e.prog == "pack") {
                *sum.probes.entry("fixture_copy_failed_before_pack".into()).or_insert(0) += 1;
            }
            if s.rmi_mode != 0 && r.log.iter().any(|e| e.prog == "docker" && e.argv.first().map(String::as_str) == Some("rmi") && e.exit != 0) {
                *sum.probes.entry("docker_rmi_failed".into()).or_insert(0) += 1;
            }
            if r.log.iter().any(|e| e.injected) {
                *sum.probes.entry("injected_command_failure_fired".into()).or_insert(0) += 1;
            }
            if r.log.iter().filter(|e| e.prog == "pack" && e.argv.first().map(String::as_str) == Some("build")).count() > 1 {
                *sum.probes.entry("rebuild_reached".into()).or_insert(0) += 1;
            }
            if keep_hashes && fault == Fault::None {
                let h = r.log.iter().fold(0u64, |h, e| {
                    crate::rng::splitmix64(h ^ crate::rng::hash_str(&format!("{} {:?} {}", e.prog, e.argv, e.exit).replace(&scratch.display().to_string(), "$S")))
                });
                sum.log_hashes.push((i, h));
            }
            if sum.samples.len() < 2 && r.log.len() >= 5 {
                sum.samples.push(json!({"index": i, "seed": seed, "fault": format!("{fault:?}"), "exit": r.exit,
                    "argv_history": r.log.iter().take(14).map(|e| format!("{} {}", e.prog, e.argv.join(" ")).chars().take(160).collect::<String>()).collect::<Vec<_>>()}));
            }
            let d = judge(&property, &s, &r);
            if !d.is_empty() && sum.violations.len() < 3 {
                sum.violations.push(E4Replay {
                    engine: "e4".into(),
                    property: property.clone(),
                    seed,
                    index: i,
                    scenario: s,
                    signature: signature(&property, &d),
                    detail: d,
                });
            }
        }
    }
    let _ = std::fs::remove_dir_all(&scratch);
    println!("RESULT {}", serde_json::to_string(&sum).unwrap_or_default());
    0
}

pub fn run_check(property: &str, tier: &str) -> i32 {
    let seed = crate::global_seed();
    println!("VERIF_SEED={seed} property={property} tier={tier} engine=E4");
    let started = Instant::now();
    let scenarios: u64 = std::env::var("VERIF_RUNS")
        .ok()
        .and_then(|s| s.parse().ok())
        .unwrap_or(if tier == "thorough" { 12_000 } else { 400 });
    let mut argvs = Vec::new();
    for (i, (from, to)) in pool::ranges(scenarios, pool::workers()).into_iter().enumerate() {
        argvs.push(
            ["worker", "e4", "--property", property, "--from", &from.to_string(), "--to", &to.to_string(), "--id", &format!("{property}-{i}")]
                .iter()
                .map(|s| (*s).to_string())
                .collect(),
        );
    }
    let results: Vec<E4Summary> = match pool::run_workers(argvs, false) {
        Ok(r) => r,
        Err(PoolError::Harness(e)) => harness_fail(&e),
    };
    let mut sum = E4Summary::default();
    for r in results {
        sum.scenarios += r.scenarios;
        sum.runs += r.runs;
        sum.panic_runs += r.panic_runs;
        sum.cmdfail_runs += r.cmdfail_runs;
        sum.stub_invocations += r.stub_invocations;
        sum.cells.extend(r.cells);
        sum.nontrivial.extend(r.nontrivial);
        for (k, v) in r.probes {
            *sum.probes.entry(k).or_insert(0) += v;
        }
        sum.violations.extend(r.violations);
        sum.harness_errors.extend(r.harness_errors);
        if sum.samples.len() < 2 {
            sum.samples.extend(r.samples);
            sum.samples.truncate(2);
        }
    }
    if !sum.harness_errors.is_empty() {
        for e in sum.harness_errors.iter().take(5) {
            eprintln!("HARNESS-ERROR: {e}");
        }
        return 2;
    }
    let det = determinism_sample(property, 24);
    let known = Known::load();
    let mut reported = 0;
    let mut known_hits: Vec<String> = Vec::new();
    let mut seen: Vec<String> = Vec::new();
    sum.violations.sort_by_key(|v| v.index);
    for v in &sum.violations {
        if seen.contains(&v.signature) || seen.len() >= 3 {
            continue;
        }
        seen.push(v.signature.clone());
        let dir = crate::scratch_root();
        let _ = std::fs::create_dir_all(&dir);
        let inp = dir.join(format!("e4min-{}.json", v.index));
        let _ = std::fs::write(&inp, serde_json::to_string(v).unwrap_or_default());
        let argv = vec!["worker".to_string(), "e4".to_string(), "--minimise".to_string(), inp.display().to_string(), "--id".to_string(), "min".to_string()];
        let min: E4Replay = match pool::run_workers::<E4Replay>(vec![argv], false) {
            Ok(mut r) if !r.is_empty() => r.remove(0),
            _ => v.clone(),
        };
        let _ = std::fs::remove_file(&inp);
        if let Some(f) = known.matches(property, &min.signature) {
            let line = format!("KNOWN-FINDING: property={property} {}", f.description);
            if !known_hits.contains(&line) {
                println!("{line}");
                known_hits.push(line);
            }
            continue;
        }
        let rdir = pool::out_root().join("replays");
        let _ = std::fs::create_dir_all(&rdir);
        let text = serde_json::to_string_pretty(&min).unwrap_or_default();
        let path = rdir.join(format!("{property}-{:08x}.json", crate::rng::hash_str(&text) & 0xffff_ffff));
        if let Err(e) = std::fs::write(&path, text + "\n") {
            harness_fail(&format!("cannot write replay: {e}"));
        }
        println!("violation: signature={} (scenario {} fault {:?})", min.signature, min.index, min.scenario.fault);
        for l in min.detail.iter().take(8) {
            println!("    {l}");
        }
        println!("VIOLATION property={property} replay={}", path.display());
        reported += 1;
    }
    let wall = started.elapsed().as_secs_f64();
    let level = if property == "C16" { "fault_enumeration" } else { "exploration" };
    let mut ev = Evidence::new(property, tier, seed, level);
    ev.cov("evaluations", json!(sum.runs));
    ev.cov("distinct_nontrivial", json!(sum.nontrivial.len()));
    ev.cov("rule", json!("seeded scenario trees over {build, rebuild, start_container{logs_now, logs_wait, address_for_port, shell_exec}, run_shell_command, download_sbom_files} with both expected pack results, scripted pack failures and an optional app-dir preprocessor; for each scenario EVERY panic position of the user code and EVERY non-cleanup external command failing is executed in its own process; distinct = distinct (fault kind, exit status, sequence of external command kinds); non-trivial = at least four external commands"));
    ev.cov("samples", json!(sum.samples));
    ev.cov("scenarios", json!(sum.scenarios));
    ev.cov("exhaustive_per_scenario", json!(true));
    ev.cov("faults_fired", json!({"panic_positions_executed": sum.panic_runs, "command_failures_executed": sum.cmdfail_runs,
        "injected_command_failure_fired": sum.probes.get("injected_command_failure_fired").copied().unwrap_or(0),
        "scenarios_ended_by_panic": sum.probes.get("scenario_ended_by_panic").copied().unwrap_or(0)}));
    ev.cov("stand_in_invocations_recorded", json!(sum.stub_invocations));
    ev.cov("distinct_cells", json!(sum.cells.len()));
    ev.cov("probes", json!(sum.probes));
    ev.cov("determinism_selftest", det);
    ev.cov("runs_per_hour", json!((sum.runs as f64 / wall * 3600.0) as u64));
    ev.cov("simulated_time", json!("no clock involved; logical steps = external command invocations"));
    ev.cov("components", json!({"real": "libcnb-test (TestRunner, TestContext, ContainerContext, app, util, docker/pack command builders), tempfile, fs_extra, std::process", "stub": "docker and pack (stubcli: argv log, resource state incl. image ids, listing, planned failures), cargo/musl-gcc wrappers for the musl triple, the integration test's own closures (scripted, one test thread per independent build)"}));
    ev.cov("known_findings_seen", json!(known_hits));
    ev.assumptions = if property == "C16" {
        vec![
            "of the cleanup commands only `docker rmi` is ever made to fail (scenario rmi mode: older CLI on a missing image, daemon refusal); a failing `docker rm` inside Drop while unwinding aborts by design".into(),
            "`rm` / `volume remove --force` of a missing object succeed (current CLI semantics)".into(),
            "'created by the run' is judged on the stand-ins' resource state and on what each command actually deleted: pre-seeded foreign resources (carrying the libcnbtest_ prefix) must survive".into(),
            "cargo and musl-gcc on the scenario's PATH are stand-ins serving the default musl triple from the installed gnu target".into(),
        ]
    } else {
        vec![
            "mount paths are free of ',' and env keys free of '='".into(),
            "the option grammars are hand-written reference parsers of documented pflag behaviour (trusted base)".into(),
            "the argv construction is a pure function; it is evaluated on the messages actually sent to the second party in the fault/panic runs".into(),
        ]
    };
    ev.wall_s = wall;
    ev.violations = reported;
    if let Err(e) = ev.write() {
        harness_fail(&format!("cannot write evidence: {e}"));
    }
    println!(
        "{property}: {} scenarios, {} runs ({} panic positions, {} command failures), {} cells, {:.1}s",
        sum.scenarios, sum.runs, sum.panic_runs, sum.cmdfail_runs, sum.cells.len(), wall
    );
    i32::from(reported > 0)
}

fn determinism_sample(property: &str, n: u64) -> serde_json::Value {
    let collect = |parts: usize, tag: &str| -> BTreeMap<u64, u64> {
        let mut argvs = Vec::new();
        for (k, (from, to)) in pool::ranges(n, parts).into_iter().enumerate() {
            argvs.push(
                ["worker", "e4", "--property", property, "--from", &from.to_string(), "--to", &to.to_string(), "--id", &format!("{property}-{tag}{k}"), "--eventlog"]
                    .iter()
                    .map(|s| (*s).to_string())
                    .collect(),
            );
        }
        let res: Vec<E4Summary> = match pool::run_workers(argvs, false) {
            Ok(r) => r,
            Err(PoolError::Harness(e)) => harness_fail(&e),
        };
        res.into_iter().flat_map(|r| r.log_hashes).collect()
    };
    let a = collect(3, "da");
    let b = collect(2, "db");
    let mut compared = 0;
    for (i, h) in &a {
        if let Some(hb) = b.get(i) {
            compared += 1;
            if hb != h {
                harness_fail(&format!("nondeterminism detected: E4 argv history of scenario {i} differs between two executions"));
            }
        }
    }
    json!({"scenarios_executed_twice": compared, "argv_histories_identical": true})
}
