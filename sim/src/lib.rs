//! simcore: deterministic simulation with fault injection for heroku/libcnb.rs.
#![allow(deprecated)] // the trait-based layer API is deprecated but is the subject of C02
#![allow(clippy::too_many_lines)]

pub mod e1;
pub mod e2;
pub mod e3;
pub mod e4;
pub mod e5;
pub mod envmodel;
pub mod evidence;
pub mod known;
pub mod pool;
pub mod rng;
pub mod shimapi;
pub mod snap;
pub mod watchdog;

pub mod hexbytes {
    use serde::{Deserialize, Deserializer, Serializer};

    pub fn encode(b: &[u8]) -> String {
        // printable ASCII stays readable; everything else is %XX
        let mut s = String::new();
        for &c in b {
            if (0x20..0x7f).contains(&c) && c != b'%' {
                s.push(c as char);
            } else {
                s.push_str(&format!("%{c:02X}"));
            }
        }
        s
    }

    pub fn decode(s: &str) -> Result<Vec<u8>, String> {
        let b = s.as_bytes();
        let mut out = Vec::new();
        let mut i = 0;
        while i < b.len() {
            if b[i] == b'%' {
                let h = s.get(i + 1..i + 3).ok_or("truncated escape")?;
                out.push(u8::from_str_radix(h, 16).map_err(|e| e.to_string())?);
                i += 3;
            } else {
                out.push(b[i]);
                i += 1;
            }
        }
        Ok(out)
    }

    pub fn serialize<S: Serializer>(b: &[u8], s: S) -> Result<S::Ok, S::Error> {
        s.serialize_str(&encode(b))
    }

    pub fn deserialize<'de, D: Deserializer<'de>>(d: D) -> Result<Vec<u8>, D::Error> {
        let s = String::deserialize(d)?;
        decode(&s).map_err(serde::de::Error::custom)
    }
}

pub const DEFAULT_SEED: u64 = 20_261_002;

pub fn global_seed() -> u64 {
    std::env::var("VERIF_SEED")
        .ok()
        .and_then(|s| s.trim().parse::<u64>().ok())
        .unwrap_or(DEFAULT_SEED)
}

pub fn scratch_base() -> std::path::PathBuf {
    if std::path::Path::new("/dev/shm").is_dir() {
        std::path::PathBuf::from("/dev/shm")
    } else {
        std::env::temp_dir()
    }
}

/// Per-process scratch directory. Minimisation and replay workers use one fixed location
/// (serialised by a lock) instead, so that a replayed execution sees exactly the paths the
/// minimised one saw (code under test may hash or sort absolute paths).
pub fn scratch_root() -> std::path::PathBuf {
    if std::env::var_os("VERIF_FIXED_SCRATCH").is_some() {
        return scratch_base().join("libcnb-verif-replay");
    }
    scratch_base().join(format!("libcnb-verif-{}", std::process::id()))
}

/// Hold an exclusive lock on the fixed replay scratch directory for the life of the process.
pub fn lock_fixed_scratch() {
    if std::env::var_os("VERIF_FIXED_SCRATCH").is_none() {
        return;
    }
    let path = scratch_base().join("libcnb-verif-replay.lock");
    if let Ok(f) = std::fs::OpenOptions::new().create(true).write(true).truncate(false).open(&path) {
        use std::os::fd::AsRawFd;
        // SAFETY: flock on a descriptor we own; the descriptor is leaked on purpose.
        unsafe {
            libc::flock(f.as_raw_fd(), libc::LOCK_EX);
        }
        std::mem::forget(f);
    }
}
