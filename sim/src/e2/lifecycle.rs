//! The stub CNB lifecycle: lays out the directories a platform would provide, invokes the real
//! buildpack executable as `detect` / `build`, and records what came back.

use super::script::{SCRIPT_ENV, Script};
use super::tval::{TTable, body, escape};
use crate::e1::model::canary_world;
use crate::pool;
use crate::snap::{self, Snap};
use serde::{Deserialize, Serialize};
use std::ffi::OsString;
use std::io::Read;
use std::os::unix::process::{CommandExt, ExitStatusExt};
use std::path::{Path, PathBuf};
use std::process::{Command, Stdio};

pub fn simbp_path() -> PathBuf {
    std::env::var_os("VERIF_SIMBP").map_or_else(
        || pool::self_exe().parent().map_or_else(|| PathBuf::from("simbp"), |p| p.join("simbp")),
        PathBuf::from,
    )
}

#[derive(Clone, Debug)]
pub struct Dirs {
    pub root: PathBuf,
    pub app: PathBuf,
    pub buildpack: PathBuf,
    pub layers: PathBuf,
    pub platform: PathBuf,
    pub markers: PathBuf,
    pub plan_out: PathBuf,
    pub plan_in: PathBuf,
}

impl Dirs {
    pub fn at(root: &Path) -> Dirs {
        Dirs {
            root: root.to_path_buf(),
            app: root.join("app"),
            buildpack: root.join("buildpack"),
            layers: root.join("layers"),
            platform: root.join("platform"),
            markers: root.join("markers"),
            plan_out: root.join("plan-out.toml"),
            plan_in: root.join("plan-in.toml"),
        }
    }

    /// Fresh world: the canary layout of E1 plus the platform-provided directories.
    pub fn create(root: &Path) -> std::io::Result<Dirs> {
        std::fs::create_dir_all(root)?;
        snap::wipe(root)?;
        snap::materialise(root, &canary_world())?;
        let d = Dirs::at(root);
        for p in [&d.app, &d.buildpack, &d.platform, &d.markers] {
            std::fs::create_dir_all(p)?;
        }
        Ok(d)
    }
}

#[derive(Clone, Debug, PartialEq, Serialize, Deserialize)]
pub struct DescSpec {
    /// literal text of the `api = …` line value; None = key missing
    pub api: Option<String>,
    pub id: String,
    pub version: String,
    pub name: Option<String>,
    pub homepage: Option<String>,
    pub description: Option<String>,
    pub clear_env: Option<bool>,
    pub keywords: Vec<String>,
    pub licenses: Vec<(Option<String>, Option<String>)>,
    pub sbom_formats: Vec<String>,
    pub stacks: Vec<(String, Vec<String>)>,
    pub targets: Vec<TargetSpec>,
    pub metadata: Option<TTable>,
    /// an extra top-level key that makes the descriptor invalid beyond `api`
    pub unknown_key: bool,
}

#[derive(Clone, Debug, PartialEq, Serialize, Deserialize)]
pub struct TargetSpec {
    pub os: Option<String>,
    pub arch: Option<String>,
    pub variant: Option<String>,
    pub distros: Vec<(String, String)>,
}

impl DescSpec {
    pub fn minimal() -> DescSpec {
        DescSpec {
            api: Some("0.10".into()),
            id: "sim/e2".into(),
            version: "1.2.3".into(),
            name: None,
            homepage: None,
            description: None,
            clear_env: None,
            keywords: vec![],
            licenses: vec![],
            sbom_formats: vec![],
            stacks: vec![],
            targets: vec![],
            metadata: None,
            unknown_key: false,
        }
    }

    pub fn emit(&self) -> String {
        let mut s = String::new();
        if let Some(api) = &self.api {
            s.push_str(&format!("api = {}\n", escape(api)));
        }
        if self.unknown_key {
            s.push_str("not-a-spec-key = 1\n");
        }
        s.push_str("\n[buildpack]\n");
        s.push_str(&format!("id = {}\nversion = {}\n", escape(&self.id), escape(&self.version)));
        if let Some(v) = &self.name {
            s.push_str(&format!("name = {}\n", escape(v)));
        }
        if let Some(v) = &self.homepage {
            s.push_str(&format!("homepage = {}\n", escape(v)));
        }
        if let Some(v) = &self.description {
            s.push_str(&format!("description = {}\n", escape(v)));
        }
        if let Some(v) = self.clear_env {
            s.push_str(&format!("clear-env = {v}\n"));
        }
        if !self.keywords.is_empty() {
            s.push_str(&format!(
                "keywords = [{}]\n",
                self.keywords.iter().map(|k| escape(k)).collect::<Vec<_>>().join(", ")
            ));
        }
        if !self.sbom_formats.is_empty() {
            s.push_str(&format!(
                "sbom-formats = [{}]\n",
                self.sbom_formats.iter().map(|k| escape(k)).collect::<Vec<_>>().join(", ")
            ));
        }
        for (t, u) in &self.licenses {
            s.push_str("\n[[buildpack.licenses]]\n");
            if let Some(t) = t {
                s.push_str(&format!("type = {}\n", escape(t)));
            }
            if let Some(u) = u {
                s.push_str(&format!("uri = {}\n", escape(u)));
            }
        }
        for (id, mixins) in &self.stacks {
            s.push_str(&format!("\n[[stacks]]\nid = {}\n", escape(id)));
            if !mixins.is_empty() {
                s.push_str(&format!(
                    "mixins = [{}]\n",
                    mixins.iter().map(|k| escape(k)).collect::<Vec<_>>().join(", ")
                ));
            }
        }
        for t in &self.targets {
            s.push_str("\n[[targets]]\n");
            if let Some(v) = &t.os {
                s.push_str(&format!("os = {}\n", escape(v)));
            }
            if let Some(v) = &t.arch {
                s.push_str(&format!("arch = {}\n", escape(v)));
            }
            if let Some(v) = &t.variant {
                s.push_str(&format!("variant = {}\n", escape(v)));
            }
            for (n, v) in &t.distros {
                s.push_str(&format!("[[targets.distros]]\nname = {}\nversion = {}\n", escape(n), escape(v)));
            }
        }
        if let Some(m) = &self.metadata {
            s.push_str("\n[metadata]\n");
            s.push_str(&body(m));
        }
        s
    }
}

#[derive(Clone, Debug, Default)]
pub struct Invocation {
    /// argv[0]
    pub arg0: String,
    pub args: Vec<OsString>,
    pub env: Vec<(String, String)>,
    pub cwd: PathBuf,
    /// VERIF_SHIM_PLAN for the child (the shim is only loaded when this is set)
    pub shim_plan: Option<String>,
    /// Some(name): the executable FILE that is started carries this name (a hard link or copy
    /// of the buildpack binary called `detect` / `build`), independently of argv[0]
    pub exe_file_name: Option<String>,
}

#[derive(Clone, Debug, Default, Serialize, Deserialize)]
pub struct PhaseResult {
    pub exit: Option<i32>,
    pub signal: Option<i32>,
    pub markers: Vec<String>,
    pub stderr_head: String,
    pub timed_out: bool,
}

impl PhaseResult {
    pub fn count(&self, prefix: &str) -> usize {
        self.markers.iter().filter(|m| m.starts_with(prefix)).count()
    }
    /// exit status as the lifecycle sees it (a signal is reported as 128+n)
    pub fn status(&self) -> i32 {
        self.exit.unwrap_or_else(|| 128 + self.signal.unwrap_or(0))
    }
}

pub fn read_markers(dir: &Path) -> Vec<String> {
    std::fs::read_to_string(dir.join("markers"))
        .map(|s| s.lines().map(str::to_string).collect())
        .unwrap_or_default()
}

/// Spawn the buildpack executable once. Markers are read (and reset) around the call.
pub fn run_phase(inv: &Invocation, script: &Script, script_path: &Path) -> Result<PhaseResult, String> {
    std::fs::write(script_path, serde_json::to_string(script).map_err(|e| e.to_string())?)
        .map_err(|e| format!("write script: {e}"))?;
    let _ = std::fs::remove_file(script.marker_dir.join("markers"));
    let exe = match &inv.exe_file_name {
        Some(name) => {
            let dir = script_path.parent().unwrap_or_else(|| Path::new("/")).join("exe-dir");
            std::fs::create_dir_all(&dir).map_err(|e| e.to_string())?;
            let p = dir.join(name);
            let _ = std::fs::remove_file(&p);
            if std::fs::hard_link(simbp_path(), &p).is_err() {
                std::fs::copy(simbp_path(), &p).map_err(|e| format!("copy simbp: {e}"))?;
            }
            p
        }
        None => simbp_path(),
    };
    let mut cmd = Command::new(exe);
    cmd.arg0(&inv.arg0)
        .args(&inv.args)
        .env_clear()
        .env("PATH", "/usr/bin:/bin")
        .env(SCRIPT_ENV, script_path)
        .current_dir(&inv.cwd)
        .stdin(Stdio::null())
        .stdout(Stdio::null())
        .stderr(Stdio::piped());
    for (k, v) in &inv.env {
        cmd.env(k, v);
    }
    if let Some(plan) = &inv.shim_plan {
        cmd.env("LD_PRELOAD", pool::shim_path());
        cmd.env("VERIF_SHIM_PLAN", plan);
    }
    let mut child = cmd.spawn().map_err(|e| format!("spawn simbp: {e}"))?;
    let guard = pool::kill_after(child.id(), pool::child_time_limit());
    let mut err = String::new();
    if let Some(mut s) = child.stderr.take() {
        let _ = s.read_to_string(&mut err);
    }
    let status = child.wait().map_err(|e| e.to_string())?;
    let timed_out = guard.finish();
    if status.code() == Some(97) {
        return Err(format!("simbp reported a harness error: {err}"));
    }
    Ok(PhaseResult {
        exit: status.code(),
        signal: status.signal(),
        markers: read_markers(&script.marker_dir),
        stderr_head: err.chars().take(400).collect(),
        timed_out,
    })
}

pub fn snapshot(dir: &Path) -> Snap {
    Snap::take(dir).unwrap_or_default()
}

pub const MANDATORY_ENV: [&str; 5] = [
    "CNB_BUILDPACK_DIR",
    "CNB_TARGET_OS",
    "CNB_TARGET_ARCH",
    "CNB_TARGET_DISTRO_NAME",
    "CNB_TARGET_DISTRO_VERSION",
];
