//! Shared driver pieces of the E2 checks (C05, C06, C20, phase part of C12).

use crate::evidence::Evidence;
use crate::known::Known;
use crate::pool::{self, PoolError};
use serde::{Deserialize, Serialize};
use serde_json::json;
use std::collections::{BTreeMap, BTreeSet};
use std::path::PathBuf;
use std::time::Instant;

#[derive(Clone, Debug, Serialize, Deserialize)]
pub struct E2Replay {
    pub engine: String,
    pub property: String,
    pub seed: u64,
    pub index: u64,
    pub scenario: serde_json::Value,
    pub detail: Vec<String>,
    pub signature: String,
    pub minimised: bool,
}

#[derive(Clone, Debug, Default, Serialize, Deserialize)]
pub struct E2Summary {
    pub runs: u64,
    pub spawns: u64,
    pub cells: BTreeSet<String>,
    pub nontrivial: BTreeSet<String>,
    pub probes: BTreeMap<String, u64>,
    pub faults: BTreeMap<String, u64>,
    pub violations: Vec<E2Replay>,
    pub harness_errors: Vec<String>,
    pub samples: Vec<serde_json::Value>,
}

impl E2Summary {
    pub fn merge(&mut self, o: E2Summary) {
        self.runs += o.runs;
        self.spawns += o.spawns;
        self.cells.extend(o.cells);
        self.nontrivial.extend(o.nontrivial);
        for (k, v) in o.probes {
            *self.probes.entry(k).or_insert(0) += v;
        }
        for (k, v) in o.faults {
            *self.faults.entry(k).or_insert(0) += v;
        }
        self.violations.extend(o.violations);
        self.harness_errors.extend(o.harness_errors);
        if self.samples.len() < 3 {
            self.samples.extend(o.samples);
            self.samples.truncate(3);
        }
    }
    pub fn probe(&mut self, name: &str) {
        *self.probes.entry(name.to_string()).or_insert(0) += 1;
    }
    pub fn fault(&mut self, name: &str) {
        *self.faults.entry(name.to_string()).or_insert(0) += 1;
    }
}

pub struct CheckSpec {
    pub property: &'static str,
    pub worker: &'static str,
    pub quick_runs: u64,
    pub thorough_runs: u64,
    pub level: &'static str,
    pub rule: &'static str,
    pub assumptions: &'static [&'static str],
    pub stub: &'static str,
    pub needs_shim_in_worker: bool,
}

pub fn harness_fail(msg: &str) -> ! {
    eprintln!("HARNESS-ERROR: {msg}");
    std::process::exit(2);
}

pub fn arg_after(args: &[String], flag: &str) -> Option<String> {
    args.iter().position(|a| a == flag).and_then(|i| args.get(i + 1).cloned())
}

pub fn worker_scratch(tag: &str) -> PathBuf {
    let d = crate::scratch_root().join(tag);
    std::fs::create_dir_all(&d).unwrap_or_else(|e| harness_fail(&format!("scratch: {e}")));
    d
}

pub fn persist(r: &E2Replay) -> PathBuf {
    let dir = pool::out_root().join("replays");
    let _ = std::fs::create_dir_all(&dir);
    let text = serde_json::to_string_pretty(r).unwrap_or_default();
    let path = dir.join(format!("{}-{:08x}.json", r.property, crate::rng::hash_str(&text) & 0xffff_ffff));
    if let Err(e) = std::fs::write(&path, text + "\n") {
        harness_fail(&format!("cannot write replay: {e}"));
    }
    path
}

/// Fan out, aggregate, minimise (in a worker), classify, write evidence. Returns the exit code.
pub fn run_check(spec: &CheckSpec, tier: &str, extra_cov: &dyn Fn(&E2Summary, &mut Evidence) -> i64) -> i32 {
    let seed = crate::global_seed();
    println!("VERIF_SEED={seed} property={} tier={tier} engine={}", spec.property, spec.worker);
    let started = Instant::now();
    let runs: u64 = std::env::var("VERIF_RUNS")
        .ok()
        .and_then(|s| s.parse().ok())
        .unwrap_or(if tier == "thorough" { spec.thorough_runs } else { spec.quick_runs });
    let mut argvs = Vec::new();
    for (i, (from, to)) in pool::ranges(runs, pool::workers()).into_iter().enumerate() {
        argvs.push(
            ["worker", spec.worker, "--from", &from.to_string(), "--to", &to.to_string(), "--id", &i.to_string(), "--tier", tier]
                .iter()
                .map(|s| (*s).to_string())
                .collect(),
        );
    }
    let results: Vec<E2Summary> = match pool::run_workers(argvs, spec.needs_shim_in_worker) {
        Ok(r) => r,
        Err(PoolError::Harness(e)) => harness_fail(&e),
    };
    let mut sum = E2Summary::default();
    for r in results {
        sum.merge(r);
    }
    if !sum.harness_errors.is_empty() {
        for e in sum.harness_errors.iter().take(5) {
            eprintln!("HARNESS-ERROR: {e}");
        }
        return 2;
    }
    let known = Known::load();
    sum.violations.sort_by_key(|v| v.index);
    let mut seen: Vec<String> = Vec::new();
    let mut reported = 0;
    let mut known_hits: Vec<String> = Vec::new();
    for v in &sum.violations {
        if seen.contains(&v.signature) || seen.len() >= 3 {
            continue;
        }
        seen.push(v.signature.clone());
        let min = minimise_in_worker(spec, v);
        if let Some(f) = known.matches(spec.property, &min.signature) {
            let line = format!("KNOWN-FINDING: property={} {}", spec.property, f.description);
            if !known_hits.contains(&line) {
                println!("{line}");
                known_hits.push(line);
            }
            continue;
        }
        let path = persist(&min);
        println!("violation: signature={} (seed {} scenario {})", min.signature, min.seed, min.index);
        for d in min.detail.iter().take(10) {
            println!("    {d}");
        }
        println!("VIOLATION property={} replay={}", spec.property, path.display());
        reported += 1;
    }
    let wall = started.elapsed().as_secs_f64();
    let mut ev = Evidence::new(spec.property, tier, seed, spec.level);
    ev.cov("evaluations", json!(sum.runs));
    ev.cov("distinct_nontrivial", json!(sum.nontrivial.len()));
    ev.cov("rule", json!(spec.rule));
    ev.cov("samples", json!(sum.samples));
    ev.cov("process_runs", json!(sum.spawns));
    ev.cov("distinct_cells", json!(sum.cells.len()));
    ev.cov("cells", json!(sum.cells.iter().take(300).collect::<Vec<_>>()));
    ev.cov("probes", json!(sum.probes));
    ev.cov("faults_fired", json!(sum.faults));
    ev.cov("runs_per_hour", json!((sum.runs as f64 / wall * 3600.0) as u64));
    ev.cov("seeds_per_hour", json!((sum.runs as f64 / wall * 3600.0) as u64));
    ev.cov("simulated_time", json!("no clock is read on any path under this property; one logical step per phase invocation"));
    ev.cov("components", json!({"real": crate::evidence::REAL_COMPONENTS, "stub": spec.stub}));
    ev.cov("known_findings_seen", json!(known_hits));
    // further classes of the same check (they print their own violation lines)
    let reported = reported + extra_cov(&sum, &mut ev);
    let wall = started.elapsed().as_secs_f64();
    ev.assumptions = spec.assumptions.iter().map(|s| (*s).to_string()).collect();
    ev.wall_s = wall;
    ev.violations = reported;
    if let Err(e) = ev.write() {
        harness_fail(&format!("cannot write evidence: {e}"));
    }
    println!(
        "{}: {} scenarios, {} process runs, {} distinct cells ({} non-trivial), {:.1}s",
        spec.property,
        sum.runs,
        sum.spawns,
        sum.cells.len(),
        sum.nontrivial.len(),
        wall
    );
    i32::from(reported > 0)
}

fn minimise_in_worker(spec: &CheckSpec, v: &E2Replay) -> E2Replay {
    let dir = crate::scratch_root();
    let _ = std::fs::create_dir_all(&dir);
    let inp = dir.join(format!("e2min-{}-{}.json", spec.property, v.index));
    if std::fs::write(&inp, serde_json::to_string(v).unwrap_or_default()).is_err() {
        return v.clone();
    }
    let argv = vec![
        "worker".to_string(),
        spec.worker.to_string(),
        "--minimise".to_string(),
        inp.display().to_string(),
    ];
    let out: Result<Vec<E2Replay>, _> = pool::run_workers(vec![argv], spec.needs_shim_in_worker);
    let _ = std::fs::remove_file(&inp);
    match out {
        Ok(mut r) if !r.is_empty() => r.remove(0),
        _ => v.clone(),
    }
}
