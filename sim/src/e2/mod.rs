//! Engine E2 — stub lifecycle ↔ real buildpack executable (C05, C06, C20, phase part of C12).
pub mod c05;
pub mod c06;
pub mod c20;
pub mod common;
pub mod faults;
pub mod lifecycle;
pub mod bp;
pub mod script;
pub mod tval;
