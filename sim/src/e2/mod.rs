//! Engine E2 — stub lifecycle ↔ real buildpack executable (C05, C06, C20, phase part of C12).
pub mod faults;
