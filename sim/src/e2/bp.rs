//! Scripted buildpack author code: what `detect`, `build` and `on_error` of the simulated
//! buildpack executable do. Runs inside the `simbp` process.

use super::script::{BuildKind, DetectKind, PlanSpec, Script};
use super::tval::{toml_table_to_json, ttable_to_toml};
use crate::e1::exec::{LoggedCb, SimBp, SimErr, World, sbom_format};
use crate::e1::model::Model;
use crate::e1::ops::Op;
use crate::hexbytes;
use crate::snap::Snap;
use libcnb::build::{BuildContext, BuildResult, BuildResultBuilder};
use libcnb::data::build_plan::{BuildPlanBuilder, Require};
use libcnb::data::launch::{Label, LaunchBuilder, ProcessBuilder, ProcessType, Slice, WorkingDirectory};
use libcnb::data::store::Store;
use libcnb::detect::{DetectContext, DetectResult, DetectResultBuilder};
use libcnb::layer::UncachedLayerDefinition;
use libcnb::sbom::Sbom;
use libcnb::{Platform, Target};
use serde_json::json;
use std::cell::RefCell;
use std::io::Write;
use std::os::unix::ffi::OsStrExt;
use std::path::{Path, PathBuf};
use std::sync::Mutex;

static SCRIPT: Mutex<Option<&'static Script>> = Mutex::new(None);

/// Install (or replace: several invocations may run in one process) the current script.
pub fn install(script: Script) {
    // leaked on purpose: a handful of scripts per process at most
    let leaked: &'static Script = Box::leak(Box::new(script));
    *SCRIPT.lock().expect("script lock") = Some(leaked);
}

pub fn script() -> Option<&'static Script> {
    *SCRIPT.lock().expect("script lock")
}

pub fn marker(line: &str) {
    let Some(s) = script() else { return };
    if let Ok(mut f) = std::fs::OpenOptions::new()
        .create(true)
        .append(true)
        .open(s.marker_dir.join("markers"))
    {
        let _ = writeln!(f, "{line}");
    }
}

fn path_json(p: &Path) -> serde_json::Value {
    json!(hexbytes::encode(p.as_os_str().as_bytes()))
}

fn target_json(t: &Target) -> serde_json::Value {
    json!({"os": t.os, "arch": t.arch, "arch_variant": t.arch_variant,
           "distro_name": t.distro_name, "distro_version": t.distro_version})
}

fn platform_json(p: &libcnb::generic::GenericPlatform) -> serde_json::Value {
    let mut v: Vec<(String, String)> = p
        .env()
        .iter()
        .map(|(k, v)| (hexbytes::encode(k.as_bytes()), hexbytes::encode(v.as_bytes())))
        .collect();
    v.sort();
    json!(v)
}

fn descriptor_json(d: &libcnb::data::buildpack::ComponentBuildpackDescriptor<libcnb::generic::GenericMetadata>) -> serde_json::Value {
    let mut sbom_formats: Vec<String> = d.buildpack.sbom_formats.iter().map(|f| format!("{f:?}")).collect();
    sbom_formats.sort();
    json!({
        "api": d.api.to_string(),
        "id": d.buildpack.id.to_string(),
        "name": d.buildpack.name,
        "version": d.buildpack.version.to_string(),
        "homepage": d.buildpack.homepage,
        "clear_env": d.buildpack.clear_env,
        "description": d.buildpack.description,
        "keywords": d.buildpack.keywords,
        "licenses": d.buildpack.licenses.iter().map(|l| json!({"type": l.r#type, "uri": l.uri})).collect::<Vec<_>>(),
        "sbom_formats": sbom_formats,
        "stacks": d.stacks.iter().map(|s| json!({"id": s.id, "mixins": s.mixins})).collect::<Vec<_>>(),
        "targets": d.targets.iter().map(|t| json!({"os": t.os, "arch": t.arch, "variant": t.variant,
            "distros": t.distros.iter().map(|x| json!({"name": x.name, "version": x.version})).collect::<Vec<_>>()})).collect::<Vec<_>>(),
        "metadata": d.metadata.as_ref().map(toml_table_to_json),
    })
}

fn dump(name: &str, v: &serde_json::Value) {
    if let Some(s) = script() {
        let _ = std::fs::write(s.marker_dir.join(name), serde_json::to_string_pretty(v).unwrap_or_default());
    }
}

fn build_plan(spec: &PlanSpec) -> libcnb::data::build_plan::BuildPlan {
    let mut b = BuildPlanBuilder::new();
    let add = |mut b: BuildPlanBuilder, provides: &[String], requires: &[super::script::RequireSpec]| {
        for p in provides {
            b = b.provides(p);
        }
        for r in requires {
            let mut req = Require::new(&r.name);
            req.metadata = ttable_to_toml(&r.metadata);
            b = b.requires(req);
        }
        b
    };
    b = add(b, &spec.provides, &spec.requires);
    for (p, r) in &spec.ors {
        b = b.or();
        b = add(b, p, r);
    }
    b.build()
}

pub fn detect(ctx: DetectContext<SimBp>) -> libcnb::Result<DetectResult, SimErr> {
    let Some(s) = script() else {
        unreachable!("detect without a script")
    };
    marker("detect");
    dump(
        "detect_context.json",
        &json!({
            "app_dir": path_json(&ctx.app_dir),
            "buildpack_dir": path_json(&ctx.buildpack_dir),
            "target": target_json(&ctx.target),
            "platform_env": platform_json(&ctx.platform),
            "descriptor": descriptor_json(&ctx.buildpack_descriptor),
        }),
    );
    match &s.detect {
        DetectKind::Pass => DetectResultBuilder::pass().build(),
        DetectKind::PassPlan(p) => DetectResultBuilder::pass().build_plan(build_plan(p)).build(),
        DetectKind::Fail => DetectResultBuilder::fail().build(),
        DetectKind::Error(c) => Err(libcnb::Error::BuildpackError(SimErr(*c))),
    }
}

/// Run layer operations against a real context without judging them (E1 judges; here they
/// only produce the layers whose bytes C20 compares, and the state C12 faults).
pub fn run_ops_unchecked(world: &mut World, layers: &[String], ops: &[Op]) {
    if ops.is_empty() {
        // nothing to do; in particular do not touch the file system (fault plans may be armed)
        return;
    }
    let root_abs = world.root.as_os_str().as_bytes().to_vec();
    let history = crate::e1::ops::History {
        layers: layers.to_vec(),
        foreign: Vec::new(),
        ops: Vec::new(),
    };
    let mut model = Model::new(&root_abs, &history);
    model.snap = Snap::take(&world.root).unwrap_or_default();
    for op in ops {
        if matches!(op, Op::Restore { .. }) || !model.enabled(op) {
            continue;
        }
        let _ = model.apply(op);
        let log: RefCell<Vec<LoggedCb>> = RefCell::new(Vec::new());
        let _ = world.exec(op, &model, &log);
        model.snap = Snap::take(&world.root).unwrap_or_default();
    }
}

pub fn build(ctx: BuildContext<SimBp>) -> libcnb::Result<BuildResult, SimErr> {
    let Some(s) = script() else {
        unreachable!("build without a script")
    };
    marker("build");
    dump(
        "build_context.json",
        &json!({
            "app_dir": path_json(&ctx.app_dir),
            "buildpack_dir": path_json(&ctx.buildpack_dir),
            "layers_dir": path_json(&ctx.layers_dir),
            "target": target_json(&ctx.target),
            "platform_env": platform_json(&ctx.platform),
            "descriptor": descriptor_json(&ctx.buildpack_descriptor),
            "plan": ctx.buildpack_plan.entries.iter().map(|e| json!({"name": e.name, "metadata": toml_table_to_json(&e.metadata)})).collect::<Vec<_>>(),
            "store": ctx.store.as_ref().map(|st| toml_table_to_json(&st.metadata)),
        }),
    );
    let b = &s.build;
    let root: PathBuf = ctx.layers_dir.parent().map_or_else(|| PathBuf::from("/"), Path::to_path_buf);
    let mut world = World::from_context(ctx, &root, &b.history.layers);
    run_ops_unchecked(&mut world, &b.history.layers, &b.history.ops);
    match &b.kind {
        BuildKind::Error(c) => return Err(libcnb::Error::BuildpackError(SimErr(*c))),
        BuildKind::LayerError => {
            let name: libcnb::data::layer::LayerName = "errlayer".parse().expect("layer name");
            let layer = world.ctx.uncached_layer(
                name,
                UncachedLayerDefinition {
                    build: true,
                    launch: false,
                },
            )?;
            layer.write_exec_d_programs([("prog", root.join("execd_src/does-not-exist"))])?;
        }
        BuildKind::Ok => {}
    }
    if b.store_tamper != 0 {
        // author code that manages `store.toml` by hand (seeded change C05-15)
        let p = world.ctx.layers_dir.join("store.toml");
        if b.store_tamper == 1 {
            let _ = std::fs::remove_file(&p);
        } else {
            let _ = std::fs::write(&p, "[metadata]\nscratch = true\n");
        }
    }
    let mut rb = BuildResultBuilder::new();
    if let Some(l) = &b.launch {
        let mut lb = LaunchBuilder::new();
        for p in &l.processes {
            let t: ProcessType = p.r#type.parse().map_err(libcnb::Error::ProcessTypeError)?;
            let mut pb = ProcessBuilder::new(t, p.command.clone());
            pb.args(p.args.clone());
            pb.default(p.default);
            if let Some(w) = &p.workdir {
                let dir = if w == super::script::WORKDIR_NOT_UTF8 {
                    use std::os::unix::ffi::OsStrExt;
                    PathBuf::from(std::ffi::OsStr::from_bytes(b"srv/d\xE4ta"))
                } else {
                    PathBuf::from(w)
                };
                pb.working_directory(WorkingDirectory::Directory(dir));
            }
            lb.process(pb.build());
        }
        for (k, v) in &l.labels {
            lb.label(Label {
                key: k.clone(),
                value: v.clone(),
            });
        }
        for sl in &l.slices {
            lb.slice(Slice {
                path_globs: sl.clone(),
            });
        }
        rb = rb.launch(lb.build());
    }
    if let Some(st) = &b.store {
        rb = rb.store(Store {
            metadata: ttable_to_toml(st),
        });
    }
    if b.launch_sboms_first {
        for sb in &b.launch_sboms {
            rb = rb.launch_sbom(to_sbom(sb));
        }
    }
    for sb in &b.build_sboms {
        rb = rb.build_sbom(to_sbom(sb));
    }
    if !b.launch_sboms_first {
        for sb in &b.launch_sboms {
            rb = rb.launch_sbom(to_sbom(sb));
        }
    }
    rb.build()
}

/// SBOM data standing for "a CycloneDX document the author holds as a typed value" (parsed from
/// a tool's output that carries no serial number), handed to libcnb through `Sbom::try_from`.
pub const SBOM_TYPED_CYCLONEDX: &[u8] = b"\x01typed-cyclonedx";

fn to_sbom(sb: &crate::e1::ops::SbomSpec) -> Sbom {
    if sb.format == 0 && sb.data == SBOM_TYPED_CYCLONEDX {
        let doc = br#"{"bomFormat":"CycloneDX","specVersion":"1.3","version":1,"components":[{"type":"library","name":"zlib","version":"1.3"},{"type":"library","name":"acme","version":"0.1.0"}]}"#;
        if let Ok(bom) = cyclonedx_bom::models::bom::Bom::parse_from_json(&doc[..]) {
            if let Ok(s) = Sbom::try_from(bom) {
                return s;
            }
        }
    }
    Sbom::from_bytes(sbom_format(sb.format), sb.data.clone())
}

pub fn on_error(err: &libcnb::Error<SimErr>) {
    let dbg = format!("{err:?}");
    let variant: String = dbg.chars().take_while(|c| c.is_ascii_alphanumeric()).collect();
    marker(&format!("on_error {variant}"));
}
