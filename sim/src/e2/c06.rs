//! C06 — the context handed to detect/build reflects exactly what the platform supplied.
//! Inputs are written by the simulator's own emitter from its own value model; the buildpack
//! process dumps what it received; a read fault on the platform env may be injected.

use super::common::{self, CheckSpec, E2Replay, E2Summary, arg_after, harness_fail};
use super::lifecycle::{DescSpec, Dirs, Invocation, PhaseResult, TargetSpec, run_phase};
use super::script::{BuildKind, BuildScript, DetectKind, Script};
use super::tval::{TTable, body, escape, gen_table, table_json};
use crate::hexbytes;
use crate::rng::{Rng, run_seed};
use serde::{Deserialize, Serialize};
use serde_json::{Value, json};
use std::ffi::{OsStr, OsString};
use std::os::unix::ffi::OsStrExt;
use std::path::Path;

#[derive(Clone, Debug, PartialEq, Serialize, Deserialize)]
pub enum EntryKind {
    File(#[serde(with = "crate::hexbytes")] Vec<u8>),
    Dir,
    /// symlink to a regular file elsewhere holding this content
    LinkToFile(#[serde(with = "crate::hexbytes")] Vec<u8>),
    LinkToDir,
    Dangling,
}

#[derive(Clone, Debug, PartialEq, Serialize, Deserialize)]
pub struct EnvFile {
    #[serde(with = "crate::hexbytes")]
    pub name: Vec<u8>,
    pub kind: EntryKind,
}

#[derive(Clone, Debug, PartialEq, Serialize, Deserialize)]
pub struct Scenario {
    pub build_phase: bool,
    pub platform_present: bool,
    pub env_dir_present: bool,
    pub entries: Vec<EnvFile>,
    pub os: String,
    pub arch: String,
    pub variant: Option<String>,
    pub distro_name: String,
    pub distro_version: String,
    pub desc: DescSpec,
    pub plan: Vec<(String, TTable)>,
    pub store: Option<TTable>,
    /// store.toml exists but cannot be represented: 1 = not UTF-8, 2 = a directory
    #[serde(default)]
    pub bad_store: u8,
    /// style of CNB_BUILDPACK_DIR: 0 plain, 1 trailing slash, 2 with "/./"
    pub bp_dir_style: u8,
    /// hand the layers directory to the build phase through a symlink (a mounted volume)
    #[serde(default)]
    pub layers_via_symlink: bool,
    /// inject EIO into one of the calls that read <platform>/env (position chosen by this value)
    pub read_fault: Option<u64>,
}

fn utf8(b: &[u8]) -> bool {
    std::str::from_utf8(b).is_ok()
}

impl Scenario {
    /// A value that cannot be represented must be a reported error.
    pub fn unrepresentable(&self) -> bool {
        (self.build_phase && self.bad_store != 0)
            || (self.platform_present
                && self.env_dir_present
                && self.entries.iter().any(|e| match &e.kind {
                    EntryKind::File(c) | EntryKind::LinkToFile(c) => !utf8(c),
                    _ => false,
                }))
    }

    pub fn expected_env(&self) -> Value {
        let mut v: Vec<(String, String)> = Vec::new();
        if self.platform_present && self.env_dir_present {
            for e in &self.entries {
                if let EntryKind::File(c) | EntryKind::LinkToFile(c) = &e.kind {
                    v.push((hexbytes::encode(&e.name), hexbytes::encode(c)));
                }
            }
        }
        v.sort();
        json!(v)
    }
}

const NAMES: [&[u8]; 12] = [
    b"FOO",
    b"BAR_BAZ",
    b"with space",
    b"a=b",
    "ünï".as_bytes(),
    b"\xff\xfe",
    b"new\nline",
    b".hidden",
    b"UPPER.lower",
    b"PATH",
    b"x",
    b"trailing.",
];
const CONTENTS: [&[u8]; 9] = [
    b"",
    b"value",
    b"multi\nline\n",
    b"  padded  ",
    "ünï ✓".as_bytes(),
    b"trailing newline\n",
    b"\n",
    b"tab\there",
    b"a=b c",
];

fn gen_desc(r: &mut Rng) -> DescSpec {
    let opt = |r: &mut Rng, xs: &[&str]| r.bool().then(|| (*r.pick(xs)).to_string());
    let mime = ["application/vnd.cyclonedx+json", "application/spdx+json", "application/vnd.syft+json"];
    DescSpec {
        api: Some("0.10".into()),
        id: (*r.pick(&["sim/e2", "a", "x/y/z", "heroku/node-js.engine", "A-1"])).to_string(),
        version: (*r.pick(&["0.0.1", "1.2.3", "10.20.30", "0.0.0", "18446744073709551615.0.1"])).to_string(),
        name: opt(r, &["Sim", "", "Näme \"q\"", "multi\nline"]),
        homepage: opt(r, &["https://example.tld", ""]),
        description: opt(r, &["A buildpack", "", "täb\there"]),
        clear_env: match r.below(3) {
            0 => None,
            1 => Some(true),
            _ => Some(false),
        },
        keywords: (0..r.usize(3)).map(|_| (*r.pick(&["k1", "", "a b", "ü"])).to_string()).collect(),
        licenses: (0..r.usize(3))
            .map(|_| (opt(r, &["MIT", "BSD-3-Clause", ""]), opt(r, &["https://l.tld/x", ""])))
            .collect(),
        sbom_formats: (0..r.usize(4)).map(|_| (*r.pick(&mime)).to_string()).collect(),
        stacks: if r.chance(1, 3) {
            (0..1 + r.usize(2))
                .map(|_| {
                    (
                        (*r.pick(&["*", "heroku-24", "io.buildpacks.stacks.jammy"])).to_string(),
                        (0..r.usize(3)).map(|_| (*r.pick(&["build:jq", "wget", ""])).to_string()).collect(),
                    )
                })
                .collect()
        } else {
            Vec::new()
        },
        targets: if r.chance(1, 2) {
            (0..1 + r.usize(2))
                .map(|_| TargetSpec {
                    os: opt(r, &["linux", "windows", ""]),
                    arch: opt(r, &["amd64", "arm64"]),
                    variant: opt(r, &["v8", ""]),
                    distros: (0..r.usize(3))
                        .map(|_| ((*r.pick(&["ubuntu", "alpine", ""])).to_string(), (*r.pick(&["24.04", "3.20", ""])).to_string()))
                        .collect(),
                })
                .collect()
        } else {
            Vec::new()
        },
        metadata: r.chance(2, 3).then(|| gen_table(r, 0)),
        unknown_key: false,
    }
}

pub fn generate(seed: u64) -> Scenario {
    let mut r = Rng::sub(seed, "c06");
    let n = match r.below(6) {
        0 => 0,
        1 | 2 => 1 + r.usize(3),
        _ => 2 + r.usize(7),
    };
    let bad_content = r.chance(1, 10);
    let mut entries: Vec<EnvFile> = Vec::new();
    for _ in 0..n {
        let name: Vec<u8> = if r.chance(1, 6) {
            let len = 1 + r.usize(8);
            (0..len)
                .map(|_| loop {
                    let b = r.next_u64() as u8;
                    if b != 0 && b != b'/' {
                        break b;
                    }
                })
                .collect()
        } else {
            r.pick(&NAMES).to_vec()
        };
        if name == b"." || name == b".." || entries.iter().any(|e| e.name == name) {
            continue;
        }
        let content = if bad_content && r.chance(1, 3) {
            b"\xffnot utf-8\xfe".to_vec()
        } else if r.chance(1, 40) {
            // a very long value (longer than an 8 KiB / 64 KiB buffer or the kernel's 128 KiB
            // limit for one environment string)
            let len = *r.pick(&[8_193usize, 70_000, 140_000]);
            (0..len).map(|i| b"abcdefghijklmnopqrstuvwxyz:/=\n"[(i * 7 + i / 31) % 30]).collect()
        } else {
            r.pick(&CONTENTS).to_vec()
        };
        let kind = match r.below(10) {
            0 => EntryKind::Dir,
            1 => EntryKind::LinkToDir,
            2 => EntryKind::Dangling,
            3 | 4 => EntryKind::LinkToFile(content),
            _ => EntryKind::File(content),
        };
        entries.push(EnvFile { name, kind });
    }
    let s = |r: &mut Rng, xs: &[&str]| (*r.pick(xs)).to_string();
    Scenario {
        build_phase: r.bool(),
        platform_present: r.chance(9, 10),
        env_dir_present: r.chance(7, 8),
        entries,
        os: s(&mut r, &["linux", "windows", "", "ünï", " linux"]),
        arch: s(&mut r, &["amd64", "arm64", "with space", "amd64 "]),
        variant: r.bool().then(|| s(&mut r, &["v8", "", "v7", " ", "v8\n"])),
        distro_name: s(&mut r, &["ubuntu", "", "alpine linux", "\tubuntu"]),
        distro_version: s(&mut r, &["24.04", "", "3.20.1", "24.04 \n"]),
        desc: gen_desc(&mut r),
        plan: (0..r.usize(4))
            .map(|_| (s(&mut r, &["node", "jdk", "", "with space", "ünï"]), if r.bool() { gen_table(&mut r, 0) } else { Vec::new() }))
            .collect(),
        store: r.bool().then(|| gen_table(&mut r, 0)),
        bad_store: if r.chance(1, 10) { 1 + r.below(4) as u8 } else { 0 },
        bp_dir_style: r.below(3) as u8,
        layers_via_symlink: r.chance(1, 4),
        read_fault: r.chance(1, 6).then(|| r.next_u64()),
    }
}

fn expected_descriptor(d: &DescSpec) -> Value {
    let mut formats: Vec<String> = d
        .sbom_formats
        .iter()
        .map(|m| match m.as_str() {
            "application/vnd.cyclonedx+json" => "CycloneDxJson",
            "application/spdx+json" => "SpdxJson",
            _ => "SyftJson",
        })
        .map(str::to_string)
        .collect();
    formats.sort();
    formats.dedup();
    json!({
        "api": "0.10",
        "id": d.id,
        "name": d.name,
        "version": d.version,
        "homepage": d.homepage,
        "clear_env": d.clear_env.unwrap_or(false),
        "description": d.description,
        "keywords": d.keywords,
        "licenses": d.licenses.iter().map(|(t, u)| json!({"type": t, "uri": u})).collect::<Vec<_>>(),
        "sbom_formats": formats,
        "stacks": d.stacks.iter().map(|(id, m)| json!({"id": id, "mixins": m})).collect::<Vec<_>>(),
        "targets": d.targets.iter().map(|t| json!({"os": t.os, "arch": t.arch, "variant": t.variant,
            "distros": t.distros.iter().map(|(n, v)| json!({"name": n, "version": v})).collect::<Vec<_>>()})).collect::<Vec<_>>(),
        "metadata": d.metadata.as_ref().map(table_json),
    })
}

pub struct Executed {
    pub result: PhaseResult,
    pub dump: Option<Value>,
    pub bp_dir_value: String,
    pub layers_arg: String,
    pub app_dir: String,
    pub fault_fired: bool,
    pub fault_call: String,
    pub spawns: u64,
}

fn read_stats(path: &Path) -> (i64, bool, String) {
    let text = std::fs::read_to_string(path).unwrap_or_default();
    let get = |k: &str| {
        text.lines()
            .find_map(|l| l.strip_prefix(&format!("{k}=")))
            .map(str::to_string)
            .unwrap_or_default()
    };
    (get("matched").parse().unwrap_or(0), get("fired") == "1", get("fired_call"))
}

pub struct PreparedWorld {
    pub inv: Invocation,
    pub script: Script,
    pub side: std::path::PathBuf,
    pub markers: std::path::PathBuf,
    pub bp_dir_value: String,
    pub layers_arg: String,
    pub app_dir: String,
}

pub fn execute(s: &Scenario, root: &Path) -> Result<Executed, String> {
    let w = prepare_world(s, root)?;
    run_prepared(s, root, w)
}

/// Several worlds, one process: each invocation goes through the public phase entry points of
/// the same process image, so anything cached across invocations shows up in the later contexts.
pub fn execute_multi(list: &[Scenario], base: &Path) -> Result<Vec<Executed>, String> {
    let mut worlds = Vec::new();
    for (i, s) in list.iter().enumerate() {
        worlds.push(prepare_world(s, &base.join(format!("m{i}")))?);
    }
    let multi: Vec<Value> = list
        .iter()
        .zip(&worlds)
        .map(|(s, w)| {
            json!({
                "build": s.build_phase,
                "cwd": w.inv.cwd,
                "env": w.inv.env,
                "args": w.inv.args.iter().map(|a| a.to_string_lossy().into_owned()).collect::<Vec<_>>(),
                "script": w.script,
            })
        })
        .collect();
    let file = base.join("multi.json");
    std::fs::write(&file, serde_json::to_string(&multi).map_err(|e| e.to_string())?).map_err(|e| e.to_string())?;
    let (out, _killed) = crate::pool::output_limited(
        std::process::Command::new(super::lifecycle::simbp_path())
            .env_clear()
            .env("PATH", "/usr/bin:/bin")
            .env("VERIF_SIMBP_MULTI", &file)
            .current_dir(base),
    )
    .map_err(|e| format!("spawn simbp (multi): {e}"))?;
    let stdout = String::from_utf8_lossy(&out.stdout);
    let codes: Vec<i32> = stdout
        .lines()
        .find_map(|l| l.strip_prefix("codes="))
        .map(|l| l.trim_matches(|c| c == '[' || c == ']').split(',').filter_map(|x| x.trim().parse().ok()).collect())
        .unwrap_or_default();
    let mut res = Vec::new();
    for (i, (s, w)) in list.iter().zip(worlds).enumerate() {
        let dump_path = w.markers.join(if s.build_phase { "build_context.json" } else { "detect_context.json" });
        let dump = std::fs::read_to_string(dump_path).ok().and_then(|t| serde_json::from_str(&t).ok());
        let markers = super::lifecycle::read_markers(&w.markers);
        res.push(Executed {
            result: PhaseResult {
                exit: codes.get(i).copied().or(out.status.code()),
                signal: None,
                markers,
                stderr_head: String::from_utf8_lossy(&out.stderr).chars().take(300).collect(),
                timed_out: false,
            },
            dump,
            bp_dir_value: w.bp_dir_value,
            layers_arg: w.layers_arg,
            app_dir: w.app_dir,
            fault_fired: false,
            fault_call: String::new(),
            spawns: u64::from(i == 0),
        });
    }
    Ok(res)
}

pub fn prepare_world(s: &Scenario, root: &Path) -> Result<PreparedWorld, String> {
    let io = |e: std::io::Error| e.to_string();
    let mut d = Dirs::create(root).map_err(io)?;
    // the scripted buildpack's own bookkeeping lives outside the prefix that may be faulted
    let side = root.with_file_name(format!("{}-side", root.file_name().map(|n| n.to_string_lossy().into_owned()).unwrap_or_default()));
    let _ = std::fs::remove_dir_all(&side);
    std::fs::create_dir_all(&side).map_err(io)?;
    let _ = std::fs::remove_dir(&d.markers);
    d.markers = side.clone();
    std::fs::write(d.buildpack.join("buildpack.toml"), s.desc.emit()).map_err(io)?;
    let env_dir = d.platform.join("env");
    if !s.platform_present {
        std::fs::remove_dir_all(&d.platform).map_err(io)?;
    } else if s.env_dir_present {
        std::fs::create_dir_all(&env_dir).map_err(io)?;
        let targets = root.join("env-targets");
        std::fs::create_dir_all(targets.join("a-directory")).map_err(io)?;
        for (i, e) in s.entries.iter().enumerate() {
            let p = env_dir.join(OsStr::from_bytes(&e.name));
            match &e.kind {
                EntryKind::File(c) => std::fs::write(&p, c).map_err(io)?,
                EntryKind::Dir => std::fs::create_dir(&p).map_err(io)?,
                EntryKind::LinkToFile(c) => {
                    let t = targets.join(format!("t{i}"));
                    std::fs::write(&t, c).map_err(io)?;
                    std::os::unix::fs::symlink(&t, &p).map_err(io)?;
                }
                EntryKind::LinkToDir => std::os::unix::fs::symlink(targets.join("a-directory"), &p).map_err(io)?,
                EntryKind::Dangling => std::os::unix::fs::symlink("no-such-target", &p).map_err(io)?,
            }
        }
    }
    // buildpack plan and store, written by the simulator's own emitter
    let mut plan = String::new();
    for (name, md) in &s.plan {
        plan.push_str(&format!("[[entries]]\nname = {}\n", escape(name)));
        if !md.is_empty() {
            plan.push_str("[entries.metadata]\n");
            plan.push_str(&body(md));
        }
        plan.push('\n');
    }
    std::fs::write(&d.plan_in, plan).map_err(io)?;
    match s.bad_store {
        1 => std::fs::write(d.layers.join("store.toml"), b"[metadata]\nk = \"\xff\xfe\"\n").map_err(io)?,
        2 => std::fs::create_dir(d.layers.join("store.toml")).map_err(io)?,
        // well-formed TOML holding something the store type has no place for
        3 => std::fs::write(d.layers.join("store.toml"), "schema = 2\n\n[metadata]\nk = \"v\"\n").map_err(io)?,
        4 => std::fs::write(d.layers.join("store.toml"), "[metadata]\nk = \"v\"\n\n[cache]\nhit = true\n").map_err(io)?,
        _ => {
            if let Some(st) = &s.store {
                std::fs::write(d.layers.join("store.toml"), format!("[metadata]\n{}", body(st))).map_err(io)?;
            }
        }
    }
    let bp_dir_value = match s.bp_dir_style {
        0 => d.buildpack.display().to_string(),
        1 => format!("{}/", d.buildpack.display()),
        _ => format!("{}/./buildpack", root.display()),
    };
    let mut env = vec![
        ("CNB_BUILDPACK_DIR".to_string(), bp_dir_value.clone()),
        ("CNB_TARGET_OS".to_string(), s.os.clone()),
        ("CNB_TARGET_ARCH".to_string(), s.arch.clone()),
        ("CNB_TARGET_DISTRO_NAME".to_string(), s.distro_name.clone()),
        ("CNB_TARGET_DISTRO_VERSION".to_string(), s.distro_version.clone()),
    ];
    if let Some(v) = &s.variant {
        env.push(("CNB_TARGET_ARCH_VARIANT".to_string(), v.clone()));
    }
    let layers_arg = if s.layers_via_symlink {
        let link = root.join("layers-mount");
        let _ = std::fs::remove_file(&link);
        std::os::unix::fs::symlink(&d.layers, &link).map_err(io)?;
        link.display().to_string()
    } else {
        d.layers.display().to_string()
    };
    let args: Vec<OsString> = if s.build_phase {
        vec![layers_arg.clone().into(), d.platform.clone().into(), d.plan_in.clone().into()]
    } else {
        vec![d.platform.clone().into(), d.plan_out.clone().into()]
    };
    let script = Script {
        marker_dir: d.markers.clone(),
        detect: DetectKind::Pass,
        build: BuildScript {
            kind: BuildKind::Ok,
            history: super::c05::empty_history(),
            launch: None,
            store: None,
            build_sboms: Vec::new(),
            launch_sboms: Vec::new(),
            launch_sboms_first: false,
            store_tamper: 0,
        },
    };
    let arg0 = if s.build_phase { "build" } else { "detect" };
    let inv = Invocation {
        arg0: arg0.into(),
        args,
        env,
        cwd: d.app.clone(),
        shim_plan: None,
        exe_file_name: None,
    };
    Ok(PreparedWorld {
        inv,
        script,
        side,
        markers: d.markers.clone(),
        bp_dir_value,
        layers_arg,
        app_dir: d.app.display().to_string(),
    })
}

fn run_prepared(s: &Scenario, root: &Path, w: PreparedWorld) -> Result<Executed, String> {
    let PreparedWorld {
        mut inv,
        script,
        side,
        markers,
        bp_dir_value,
        layers_arg,
        app_dir,
    } = w;
    let arg0 = if s.build_phase { "build" } else { "detect" };
    let stats = side.join("shim-stats.txt");
    let script_path = side.join("script.json");
    let mut spawns = 0;
    let mut fault_fired = false;
    let mut fault_call = String::new();
    // readdir order of <platform>/env is permuted by the shim in every run (seeded by content)
    let rdseed = crate::rng::hash_bytes(root.as_os_str().as_bytes()) | 1;
    // counted and faultable: every file-system call of the phase beneath its world (buildpack.toml,
    // <platform>/env, the buildpack plan, store.toml)
    let base_plan = format!(
        "prog={arg0};prefix={};rdseed={rdseed};hashkey={};stats={}",
        root.display(),
        rdseed ^ 0x55,
        stats.display()
    );
    inv.shim_plan = Some(format!("{base_plan};mode=count"));
    if let Some(pos) = s.read_fault {
        // counting run first, then the same run with the k-th matching call failing
        let _ = run_phase(&inv, &script, &script_path)?;
        spawns += 1;
        let (n, _, _) = read_stats(&stats);
        if n > 0 {
            let k = 1 + (pos % n as u64) as i64;
            inv.shim_plan = Some(format!("{base_plan};mode=error;k={k};errno={}", libc::EIO));
        }
    }
    let _ = std::fs::remove_file(markers.join("detect_context.json"));
    let _ = std::fs::remove_file(markers.join("build_context.json"));
    let result = run_phase(&inv, &script, &script_path)?;
    spawns += 1;
    if inv.shim_plan.as_deref().is_some_and(|p| p.contains("mode=error")) {
        let (_, fired, call) = read_stats(&stats);
        fault_fired = fired;
        fault_call = call;
    }
    let dump_path = markers.join(if s.build_phase { "build_context.json" } else { "detect_context.json" });
    let dump = std::fs::read_to_string(dump_path).ok().and_then(|t| serde_json::from_str(&t).ok());
    Ok(Executed {
        result,
        dump,
        bp_dir_value,
        layers_arg,
        app_dir,
        fault_fired,
        fault_call,
        spawns,
    })
}

pub fn judge(s: &Scenario, x: &Executed) -> Vec<String> {
    let mut v = Vec::new();
    let r = &x.result;
    let cb = r.count(if s.build_phase { "build" } else { "detect" });
    let on_error = r.count("on_error");
    if s.unrepresentable() || x.fault_fired {
        let why = if x.fault_fired {
            format!("reading an input the platform supplied failed ({} -> EIO)", x.fault_call)
        } else if s.build_phase && s.bad_store != 0 {
            "store.toml exists but cannot be read as the store (not UTF-8, a directory, or holding keys the store has no place for)".to_string()
        } else {
            "a platform env file is not valid UTF-8".to_string()
        };
        if cb != 0 {
            v.push(format!("the phase callback ran although {why}: the value was dropped or altered instead of reported"));
        }
        if r.status() == 0 {
            v.push(format!("exit status 0 although {why}"));
        }
        if (on_error > 1 || (on_error == 0 && !x.fault_fired)) && cb == 0 {
            v.push(format!("error handler ran {on_error} times although {why}"));
        }
        return v;
    }
    let has_dangling = s.platform_present
        && s.env_dir_present
        && s.entries.iter().any(|e| e.kind == EntryKind::Dangling);
    if has_dangling && cb == 0 && on_error == 1 && r.status() != 0 {
        // the statement is silent on dangling links: reporting one is as acceptable as skipping
        return v;
    }
    if cb != 1 || r.status() != 0 {
        v.push(format!(
            "phase did not run normally on valid inputs: callback ran {cb} times, exit {}, markers {:?}, stderr {}",
            r.status(),
            r.markers,
            r.stderr_head.replace('\n', " | ")
        ));
        return v;
    }
    let Some(dump) = &x.dump else {
        v.push("no context dump".into());
        return v;
    };
    let mut want = json!({
        "app_dir": hexbytes::encode(x.app_dir.as_bytes()),
        "buildpack_dir": hexbytes::encode(x.bp_dir_value.as_bytes()),
        "target": {"os": s.os, "arch": s.arch, "arch_variant": s.variant,
                   "distro_name": s.distro_name, "distro_version": s.distro_version},
        "platform_env": s.expected_env(),
        "descriptor": expected_descriptor(&s.desc),
    });
    if s.build_phase {
        want["layers_dir"] = json!(hexbytes::encode(x.layers_arg.as_bytes()));
        want["plan"] = json!(s.plan.iter().map(|(n, m)| json!({"name": n, "metadata": table_json(m)})).collect::<Vec<_>>());
        want["store"] = s.store.as_ref().map_or(Value::Null, table_json);
        let _ = s.bad_store;
    }
    if *dump != want {
        let keys: Vec<&String> = want.as_object().map(|m| m.keys().collect()).unwrap_or_default();
        for k in keys {
            if dump.get(k) != want.get(k) {
                v.push(format!(
                    "context field {k}: buildpack saw {} but the platform supplied {}",
                    dump.get(k).map(|x| x.to_string().chars().take(300).collect::<String>()).unwrap_or_default(),
                    want.get(k).map(|x| x.to_string().chars().take(300).collect::<String>()).unwrap_or_default()
                ));
            }
        }
        if v.is_empty() {
            v.push("context dump has extra fields".into());
        }
    }
    v
}

fn signature(detail: &[String]) -> String {
    let first: String = detail
        .first()
        .map(|l| l.split(':').next().unwrap_or(l).chars().filter(|c| !c.is_ascii_digit()).take(70).collect())
        .unwrap_or_default();
    format!("C06:{first}")
}

fn simplifications(s: &Scenario) -> Vec<Scenario> {
    let mut out = Vec::new();
    for i in 0..s.entries.len() {
        let mut c = s.clone();
        c.entries.remove(i);
        out.push(c);
    }
    for i in 0..s.plan.len() {
        let mut c = s.clone();
        c.plan.remove(i);
        out.push(c);
    }
    let mut push = |f: &dyn Fn(&mut Scenario)| {
        let mut c = s.clone();
        f(&mut c);
        if c != *s {
            out.push(c);
        }
    };
    push(&|c| c.read_fault = None);
    push(&|c| c.store = None);
    push(&|c| c.variant = None);
    push(&|c| c.bp_dir_style = 0);
    push(&|c| {
        let api = c.desc.api.clone();
        c.desc = DescSpec::minimal();
        c.desc.api = api;
    });
    push(&|c| c.desc.metadata = None);
    push(&|c| c.desc.targets.clear());
    push(&|c| c.desc.stacks.clear());
    push(&|c| c.desc.licenses.clear());
    push(&|c| {
        for p in &mut c.plan {
            p.1.clear();
        }
    });
    out
}

pub fn worker(args: &[String]) -> i32 {
    let scratch = common::worker_scratch(&format!("c06-{}", arg_after(args, "--id").unwrap_or_else(|| "x".into())));
    let root = scratch.join("w");
    if let Some(file) = arg_after(args, "--minimise").or_else(|| arg_after(args, "--replay")) {
        let text = std::fs::read_to_string(&file).unwrap_or_else(|e| harness_fail(&e.to_string()));
        let mut rep: E2Replay = serde_json::from_str(&text).unwrap_or_else(|e| harness_fail(&e.to_string()));
        if let Some(list) = rep.scenario.get("multi") {
            let list: Vec<Scenario> = serde_json::from_value(list.clone()).unwrap_or_else(|e| harness_fail(&e.to_string()));
            let results = execute_multi(&list, &root).unwrap_or_else(|e| harness_fail(&e));
            let failing = list.iter().zip(&results).any(|(s, x)| !judge(s, x).is_empty());
            if args.iter().any(|a| a == "--replay") {
                println!("RESULT {}", json!({"reproduced": failing}));
            } else {
                println!("RESULT {}", serde_json::to_string(&rep).unwrap_or_default());
            }
            let _ = crate::snap::wipe(&scratch);
            let _ = std::fs::remove_dir(&scratch);
            return 0;
        }
        let mut s: Scenario = serde_json::from_value(rep.scenario.clone()).unwrap_or_else(|e| harness_fail(&e.to_string()));
        let run = |s: &Scenario| -> Vec<String> {
            match execute(s, &root) {
                Ok(x) => judge(s, &x),
                Err(e) => harness_fail(&e),
            }
        };
        if args.iter().any(|a| a == "--replay") {
            let d = run(&s);
            println!("RESULT {}", json!({"reproduced": !d.is_empty() && signature(&d) == rep.signature, "detail": d}));
        } else {
            let mut progress = true;
            let mut budget = 200;
            while progress && budget > 0 {
                progress = false;
                for c in simplifications(&s) {
                    budget -= 1;
                    let d = run(&c);
                    if !d.is_empty() && signature(&d) == rep.signature {
                        s = c;
                        rep.detail = d;
                        progress = true;
                        break;
                    }
                }
            }
            rep.scenario = serde_json::to_value(&s).unwrap_or_default();
            rep.minimised = true;
            println!("RESULT {}", serde_json::to_string(&rep).unwrap_or_default());
        }
        let _ = crate::snap::wipe(&scratch);
        let _ = std::fs::remove_dir(&scratch);
        return 0;
    }
    let from: u64 = arg_after(args, "--from").and_then(|s| s.parse().ok()).unwrap_or(0);
    let to: u64 = arg_after(args, "--to").and_then(|s| s.parse().ok()).unwrap_or(0);
    let mut sum = E2Summary::default();
    for i in from..to {
        if sum.violations.len() >= 4 {
            break;
        }
        let seed = run_seed(crate::global_seed(), "e2-c06", i);
        if i % 5 == 4 {
            // 2-3 well-formed worlds through one process
            let n = 2 + (seed % 2) as usize;
            let list: Vec<Scenario> = (0..n)
                .map(|k| {
                    let mut s = generate(crate::rng::splitmix64(seed ^ k as u64));
                    s.read_fault = None;
                    s.bad_store = 0;
                    for e in &mut s.entries {
                        if let EntryKind::File(c) | EntryKind::LinkToFile(c) = &mut e.kind {
                            if !utf8(c) {
                                *c = b"valid".to_vec();
                            }
                        }
                    }
                    s
                })
                .collect();
            match execute_multi(&list, &root) {
                Err(e) => sum.harness_errors.push(format!("multi scenario {i}: {e}")),
                Ok(results) => {
                    sum.runs += 1;
                    sum.spawns += 1;
                    sum.probe("several_invocations_in_one_process");
                    sum.cells.insert(format!("multi|{n}"));
                    sum.nontrivial.insert(format!("multi|{n}|{}", list.iter().map(|s| if s.build_phase { 'b' } else { 'd' }).collect::<String>()));
                    for (k, (s, x)) in list.iter().zip(&results).enumerate() {
                        let mut d = judge(s, x);
                        if !d.is_empty() && sum.violations.len() < 4 {
                            d.insert(0, format!("invocation #{k} of {n} in one process:"));
                            sum.violations.push(E2Replay {
                                engine: "e2-c06".into(),
                                property: "C06".into(),
                                seed,
                                index: i,
                                scenario: json!({"multi": list}),
                                signature: format!("C06:multi:{}", signature(&d[1..])),
                                detail: d,
                                minimised: false,
                            });
                            break;
                        }
                    }
                }
            }
            continue;
        }
        let s = generate(seed);
        match execute(&s, &root) {
            Err(e) => sum.harness_errors.push(format!("scenario {i}: {e}")),
            Ok(x) => {
                sum.runs += 1;
                sum.spawns += x.spawns;
                let kinds: std::collections::BTreeSet<&str> = s
                    .entries
                    .iter()
                    .map(|e| match e.kind {
                        EntryKind::File(_) => "file",
                        EntryKind::Dir => "dir",
                        EntryKind::LinkToFile(_) => "link-file",
                        EntryKind::LinkToDir => "link-dir",
                        EntryKind::Dangling => "dangling",
                    })
                    .collect();
                let cell = format!(
                    "{}|plat{}env{}|{:?}|plan{}|store{}|fault{}|bad{}",
                    if s.build_phase { "build" } else { "detect" },
                    u8::from(s.platform_present),
                    u8::from(s.env_dir_present),
                    kinds,
                    s.plan.len().min(2),
                    u8::from(s.store.is_some()),
                    u8::from(x.fault_fired),
                    u8::from(s.unrepresentable())
                );
                if s.entries.len() >= 2 || x.fault_fired {
                    sum.nontrivial.insert(cell.clone());
                }
                sum.cells.insert(cell);
                if x.fault_fired {
                    sum.fault(&format!("EIO_on_{}", x.fault_call));
                }
                if s.unrepresentable() {
                    sum.probe("non_utf8_env_content");
                }
                if s.entries.iter().any(|e| !utf8(&e.name)) {
                    sum.probe("non_utf8_env_name");
                }
                if !s.platform_present || !s.env_dir_present {
                    sum.probe("missing_env_dir");
                }
                sum.probe("readdir_order_permuted_runs");
                if sum.samples.len() < 2 && s.entries.len() >= 2 {
                    sum.samples.push(json!({"index": i, "seed": seed, "phase": if s.build_phase {"build"} else {"detect"},
                        "env_entries": s.entries.iter().map(|e| format!("{} -> {:?}", hexbytes::encode(&e.name), e.kind).chars().take(80).collect::<String>()).collect::<Vec<_>>(),
                        "plan_entries": s.plan.len(), "read_fault": x.fault_fired, "exit": x.result.status()}));
                }
                let d = judge(&s, &x);
                if !d.is_empty() && sum.violations.len() < 4 {
                    sum.violations.push(E2Replay {
                        engine: "e2-c06".into(),
                        property: "C06".into(),
                        seed,
                        index: i,
                        scenario: serde_json::to_value(&s).unwrap_or_default(),
                        signature: signature(&d),
                        detail: d,
                        minimised: false,
                    });
                }
            }
        }
    }
    let _ = crate::snap::wipe(&scratch);
    let _ = std::fs::remove_dir(&scratch);
    println!("RESULT {}", serde_json::to_string(&sum).unwrap_or_default());
    0
}

pub fn run_check(tier: &str) -> i32 {
    let spec = CheckSpec {
        property: "C06",
        worker: "e2-c06",
        quick_runs: 3_000,
        thorough_runs: 300_000,
        level: "exploration",
        rule: "seeded platform directories (files with arbitrary legal names incl. non-UTF-8, sub-directories, symlinks to files/directories, dangling links, missing env dir), buildpack plans / stores / descriptor metadata from nested values, all target-variable combinations; the real buildpack process dumps its context which must equal the supplied model; one in six scenarios re-runs with EIO injected into a seeded position of the calls that read <platform>/env; distinct = distinct (phase, presence, entry-kind set, plan size, store, fault, unrepresentable) cells; non-trivial = at least two env entries or a fired fault",
        assumptions: &[
            "TOML inputs are produced by the simulator's own emitter from its own value model",
            "a dangling symlink in <platform>/env may be skipped or reported (the statement is silent)",
            "directory iteration order of <platform>/env is permuted by the shim in every run",
        ],
        stub: "CNB lifecycle (directory layout, inputs, phase invocation); the buildpack's detect/build only dump their context",
        needs_shim_in_worker: false,
    };
    common::run_check(&spec, tier, &|_, _| 0)
}
