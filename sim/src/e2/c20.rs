//! C20 — identical inputs give byte-identical layer and phase outputs. Each scenario is run in
//! several fresh processes under different perturbation vectors chosen by the simulator
//! (hash keys, directory order, location, clock offset); normalised trees must be identical.

use super::c05::{gen_launch, gen_plan};
use super::common::{self, CheckSpec, E2Replay, E2Summary, arg_after, harness_fail};
use super::lifecycle::{DescSpec, Dirs, Invocation, run_phase};
use super::script::{BuildKind, BuildScript, DetectKind, Script};
use super::tval::gen_table;
use crate::e1::generate::{self, Class};
use crate::e1::model::Model;
use crate::e1::ops::{History, Op, SbomSpec};
use crate::rng::{Rng, run_seed, splitmix64};
use crate::snap::{self, Node, Snap, show_bytes};
use serde::{Deserialize, Serialize};
use serde_json::json;
use std::ffi::OsString;
use std::os::unix::ffi::OsStrExt;
use std::path::{Path, PathBuf};

#[derive(Clone, Debug, PartialEq, Serialize, Deserialize)]
pub struct Scenario {
    pub history: History,
    pub detect: DetectKind,
    pub launch: Option<super::script::LaunchSpec>,
    pub store: Option<super::tval::TTable>,
    pub build_sboms: Vec<SbomSpec>,
    pub launch_sboms: Vec<SbomSpec>,
    pub vectors: usize,
    /// all vectors see the same directory listing order (the scenario holds an env directory
    /// whose meaning depends on it: NAME next to NAME.override)
    #[serde(default)]
    pub same_dir_order: bool,
}

pub fn generate(seed: u64, tier: &str) -> Scenario {
    let mut r = Rng::sub(seed, "c20");
    let class = *r.pick(&[Class::C01, Class::C02, Class::Mixed, Class::C02, Class::Mixed]);
    let (mut history, _sw) = generate::gen_history(seed, class, if tier == "thorough" { 30 } else { 16 });
    // An exec.d program whose source is missing makes the call fail half-way; what a failed call
    // leaves behind is not an output the statement speaks about, so such sets are kept valid.
    for op in &mut history.ops {
        let fix = |progs: &mut Vec<crate::e1::ops::ExecDSpec>| {
            for p in progs {
                p.source %= crate::e1::ops::EXECD_SOURCES;
            }
        };
        // likewise an environment with a name too long for a file name: the write fails
        // half-way, and how far it got depends on map order
        let short = |env: &mut crate::envmodel::EnvSpec| {
            for e in env.iter_mut() {
                e.name.truncate(200);
            }
        };
        match op {
            Op::WriteExecD { progs, .. } => fix(progs),
            Op::Handle { result, .. } => {
                fix(&mut result.execd);
                if let Some(env) = result.env.as_mut() {
                    short(env);
                }
            }
            Op::WriteEnv { env, .. } => short(env),
            _ => {}
        }
    }
    // every fourth scenario: a restored env directory holding NAME and NAME.override (both
    // spell "override NAME"; which one a reader sees last is decided by the listing order, so
    // that order is then the same in all vectors), read and written back by the buildpack
    let mut same_dir_order = false;
    if r.chance(1, 4) {
        if let Some((j, layer)) = history.ops.iter().enumerate().rev().find_map(|(j, op)| match op {
            Op::Cached { layer, .. } | Op::Uncached { layer, .. } => Some((j, *layer)),
            _ => None,
        }) {
            let f = |path: &str, data: &str| crate::e1::ops::FileSpec {
                path: path.as_bytes().to_vec(),
                data: data.as_bytes().to_vec(),
                mode: 0o644,
            };
            let files = vec![
                f("env/FOO", "plain"),
                f("env/FOO.override", "suffixed"),
                f("env.launch/web/BAR.override", "suffixed"),
                f("env.launch/web/BAR", "plain"),
                f("env.build/BAZ.append", "x"),
            ];
            history.ops.insert(j + 1, Op::EnvCycle { layer, times: 1 });
            history.ops.insert(j + 1, Op::SpecDir { layer, files, links: Vec::new() });
            same_dir_order = true;
        }
    }
    // every sixth scenario: a stray file where an env directory belongs (left by another tool),
    // then the buildpack writes an environment — whatever that does must be the same every time
    if r.chance(1, 6) {
        if let Some((j, layer)) = history.ops.iter().enumerate().rev().find_map(|(j, op)| match op {
            Op::Cached { layer, .. } | Op::Uncached { layer, .. } => Some((j, *layer)),
            _ => None,
        }) {
            use crate::envmodel::{Beh, EnvEntry, ScopeM};
            let e = |scope: ScopeM, name: &str, value: &str| EnvEntry { scope, beh: Beh::Override, name: name.as_bytes().to_vec(), value: value.as_bytes().to_vec() };
            let env = vec![e(ScopeM::All, "A", "1"), e(ScopeM::Build, "B", "2"), e(ScopeM::Launch, "C", "3"), e(ScopeM::Process("web".into()), "D", "4")];
            let which = *r.pick(&["env", "env.build", "env.launch"]);
            history.ops.insert(j + 1, Op::WriteEnv { layer, env });
            history.ops.insert(
                j + 1,
                Op::PlainFile { layer, file: crate::e1::ops::FileSpec { path: which.as_bytes().to_vec(), data: b"not a directory".to_vec(), mode: 0o644 } },
            );
        }
    }
    // every eighth scenario: a restored layer's <name>.toml is not TOML at all (truncated by a
    // crashed build) and the next build requests that layer again
    if r.chance(1, 8) {
        if let Some((j, op)) = history.ops.iter().enumerate().rev().find_map(|(j, op)| match op {
            Op::Cached { .. } | Op::Uncached { .. } => Some((j, op.clone())),
            _ => None,
        }) {
            if let Some(layer) = op.layer() {
                history.ops.insert(j + 1, op);
                history.ops.insert(j + 1, Op::CorruptToml { layer });
            }
        }
    }
    let sb = |r: &mut Rng| -> Vec<SbomSpec> {
        (0..r.usize(3))
            .map(|_| {
                if r.chance(1, 5) {
                    // a typed CycloneDX value converted by libcnb (feature cyclonedx-bom)
                    SbomSpec { format: 0, data: super::bp::SBOM_TYPED_CYCLONEDX.to_vec() }
                } else {
                    SbomSpec { format: r.below(3) as u8, data: r.bytes(6) }
                }
            })
            .collect()
    };
    Scenario {
        history,
        detect: DetectKind::PassPlan(gen_plan(&mut r)),
        launch: r.chance(2, 3).then(|| gen_launch(&mut r)),
        store: r.chance(2, 3).then(|| gen_table(&mut r, 0)),
        build_sboms: sb(&mut r),
        launch_sboms: sb(&mut r),
        vectors: if tier == "thorough" { 4 } else { 3 },
        same_dir_order,
    }
}

/// Split at the restore operations: one segment per build, with the restore that follows it.
fn builds(h: &History) -> Vec<(Vec<Op>, Option<crate::e1::ops::RestoreKind>)> {
    let mut out = Vec::new();
    let mut cur = Vec::new();
    for op in &h.ops {
        if let Op::Restore { kind } = op {
            out.push((std::mem::take(&mut cur), Some(*kind)));
        } else {
            cur.push(op.clone());
        }
    }
    out.push((cur, None));
    out
}

fn normalise(s: &Snap, root: &Path) -> Snap {
    let root_b = root.as_os_str().as_bytes();
    Snap {
        nodes: s
            .nodes
            .iter()
            .map(|(k, v)| {
                let v = match v {
                    Node::Symlink { target } if target.starts_with(root_b) => {
                        let mut t = b"$ROOT".to_vec();
                        t.extend_from_slice(&target[root_b.len()..]);
                        Node::Symlink { target: t }
                    }
                    other => other.clone(),
                };
                (k.clone(), v)
            })
            .collect(),
    }
}

pub struct VectorRun {
    /// per build: normalised tree of <layers>; plus the detect plan
    pub trees: Vec<Snap>,
    pub plan: Option<Vec<u8>>,
    pub spawns: u64,
    pub statuses: Vec<i32>,
}

fn run_vector(s: &Scenario, base: &Path, v: usize, seed: u64) -> Result<VectorRun, String> {
    let io = |e: std::io::Error| e.to_string();
    // a different absolute location per vector (different depth and name)
    let mut root: PathBuf = base.join(format!("v{v}"));
    for d in 0..v {
        root = root.join(format!("nest{d}"));
    }
    std::fs::create_dir_all(&root).map_err(io)?;
    let d = Dirs::create(&root).map_err(io)?;
    std::fs::write(d.buildpack.join("buildpack.toml"), DescSpec::minimal().emit()).map_err(io)?;
    std::fs::create_dir_all(d.platform.join("env")).map_err(io)?;
    std::fs::write(&d.plan_in, "").map_err(io)?;
    // identical inputs, different timestamps: the exec.d sources are old in one vector, from the
    // future in the next (a buildpack unpacked before / after the cache was restored)
    for i in 0..crate::e1::ops::EXECD_SOURCES {
        let p = root.join(format!("execd_src/p{i}"));
        let secs: i64 = match v % 3 {
            0 => 946_684_800,                // 2000-01-01
            1 => 4_102_444_800,              // 2100-01-01
            _ => 1_700_000_000 + i as i64,
        };
        let c = std::ffi::CString::new(p.as_os_str().as_bytes()).map_err(|e| e.to_string())?;
        let times = [libc::timespec { tv_sec: secs, tv_nsec: 0 }, libc::timespec { tv_sec: secs, tv_nsec: 0 }];
        // SAFETY: valid C string and a two-element timespec array.
        unsafe {
            libc::utimensat(libc::AT_FDCWD, c.as_ptr(), times.as_ptr(), 0);
        }
    }
    let env = vec![
        ("CNB_BUILDPACK_DIR".to_string(), d.buildpack.display().to_string()),
        ("CNB_TARGET_OS".to_string(), "linux".to_string()),
        ("CNB_TARGET_ARCH".to_string(), "amd64".to_string()),
        ("CNB_TARGET_DISTRO_NAME".to_string(), "ubuntu".to_string()),
        ("CNB_TARGET_DISTRO_VERSION".to_string(), "24.04".to_string()),
    ];
    let vseed = splitmix64(seed ^ (v as u64 + 1).wrapping_mul(0x9E37_79B9));
    let rdseed = if s.same_dir_order { splitmix64(seed ^ 0xd12) | 1 } else { vseed | 1 };
    let plan_for = |prog: &str| {
        format!(
            "prog={prog};prefix={};mode=count;rdseed={};hashkey={};clockoff={}",
            root.display(),
            rdseed,
            vseed.rotate_left(17),
            (v as i64) * 86_400 * 400 + 3
        )
    };
    let mut out = VectorRun {
        trees: Vec::new(),
        plan: None,
        spawns: 0,
        statuses: Vec::new(),
    };
    let mk_script = |ops: Vec<Op>, last: bool| Script {
        marker_dir: d.markers.clone(),
        detect: s.detect.clone(),
        build: BuildScript {
            kind: BuildKind::Ok,
            history: History {
                layers: s.history.layers.clone(),
                foreign: Vec::new(),
                ops,
            },
            launch: if last { s.launch.clone() } else { None },
            store: s.store.clone(),
            build_sboms: s.build_sboms.clone(),
            launch_sboms: s.launch_sboms.clone(),
            launch_sboms_first: false,
            store_tamper: 0,
        },
    };
    // detect once
    let inv = Invocation {
        arg0: "detect".into(),
        args: vec![d.platform.clone().into(), d.plan_out.clone().into()],
        env: env.clone(),
        cwd: d.app.clone(),
        shim_plan: Some(plan_for("detect")),
        exe_file_name: None,
    };
    let r = run_phase(&inv, &mk_script(Vec::new(), false), &root.join("script.json"))?;
    out.spawns += 1;
    out.statuses.push(r.status());
    out.plan = std::fs::read(&d.plan_out).ok();
    let segs = builds(&s.history);
    let n = segs.len();
    for (bi, (ops, restore)) in segs.into_iter().enumerate() {
        let inv = Invocation {
            arg0: "build".into(),
            args: vec![
                OsString::from(d.layers.clone()),
                d.platform.clone().into(),
                d.plan_in.clone().into(),
            ],
            env: env.clone(),
            cwd: d.app.clone(),
            shim_plan: Some(plan_for("build")),
            exe_file_name: None,
        };
        let r = run_phase(&inv, &mk_script(ops, bi + 1 == n), &root.join("script.json"))?;
        out.spawns += 1;
        out.statuses.push(r.status());
        let tree = Snap::take(&d.layers).map_err(io)?;
        out.trees.push(normalise(&tree, &root));
        if let Some(kind) = restore {
            // the stub lifecycle restores what the next build would find
            let whole = Snap::take(&root).map_err(io)?;
            let mut m = Model::new(root.as_os_str().as_bytes(), &History {
                layers: s.history.layers.clone(),
                foreign: Vec::new(),
                ops: Vec::new(),
            });
            m.snap = whole;
            m.restore(kind);
            snap::wipe(&d.layers).map_err(io)?;
            snap::materialise(&d.layers, &m.snap.subtree(b"layers")).map_err(io)?;
        }
    }
    Ok(out)
}

pub struct Outcome {
    pub detail: Vec<String>,
    pub spawns: u64,
    pub nontrivial: bool,
    pub builds: usize,
}

pub fn execute(s: &Scenario, base: &Path, seed: u64) -> Result<Outcome, String> {
    let _ = snap::wipe(base);
    std::fs::create_dir_all(base).map_err(|e| e.to_string())?;
    let mut runs = Vec::new();
    for v in 0..s.vectors {
        runs.push(run_vector(s, base, v, seed)?);
    }
    let mut detail = Vec::new();
    let first = &runs[0];
    for (v, r) in runs.iter().enumerate().skip(1) {
        if r.statuses != first.statuses {
            detail.push(format!("exit statuses differ between vector 0 {:?} and vector {v} {:?}", first.statuses, r.statuses));
        }
        if r.plan != first.plan {
            detail.push(format!(
                "build plan bytes differ between two runs on identical inputs: {:?} vs {:?}",
                first.plan.as_ref().map(|p| show_bytes(p, 200)),
                r.plan.as_ref().map(|p| show_bytes(p, 200))
            ));
        }
        for (b, (t0, tv)) in first.trees.iter().zip(&r.trees).enumerate() {
            if t0 != tv {
                let lines = snap::diff(t0, tv, &|_, _, _| None, &[]);
                detail.push(format!("<layers> after build {b} differs between vector 0 and vector {v}:"));
                detail.extend(lines.into_iter().take(6));
                break;
            }
        }
        if !detail.is_empty() {
            break;
        }
    }
    let spawns = runs.iter().map(|r| r.spawns).sum();
    // non-trivial: some map-backed structure with at least two entries reached the outputs
    let multi = s.history.ops.iter().any(|op| match op {
        Op::WriteExecD { progs, .. } => progs.len() >= 2,
        Op::WriteEnv { env, .. } => env.len() >= 2,
        Op::Handle { result, .. } => {
            result.execd.len() >= 2 || result.env.as_ref().is_some_and(|e| e.len() >= 2)
        }
        Op::WriteMetadata { meta, .. } => meta.table().is_some_and(|t| t.len() >= 2),
        _ => false,
    });
    let builds = first.trees.len();
    let _ = snap::wipe(base);
    Ok(Outcome {
        detail,
        spawns,
        nontrivial: multi,
        builds,
    })
}

fn signature(detail: &[String]) -> String {
    let l = detail
        .iter()
        .find(|l| l.starts_with("differs") || l.starts_with("missing") || l.starts_with("unexpected"))
        .or_else(|| detail.first())
        .cloned()
        .unwrap_or_default();
    let kind: String = l.split(' ').next().unwrap_or("").to_string();
    let file: String = l
        .split(' ')
        .nth(1)
        .unwrap_or("")
        .rsplit('/')
        .next()
        .unwrap_or("")
        .chars()
        .filter(|c| !c.is_ascii_digit())
        .take(40)
        .collect();
    format!("C20:{kind}:{file}")
}

pub fn worker(args: &[String]) -> i32 {
    let scratch = common::worker_scratch(&format!("c20-{}", arg_after(args, "--id").unwrap_or_else(|| "x".into())));
    let base = scratch.join("b");
    let tier = arg_after(args, "--tier").unwrap_or_else(|| "quick".into());
    if let Some(file) = arg_after(args, "--minimise").or_else(|| arg_after(args, "--replay")) {
        let text = std::fs::read_to_string(&file).unwrap_or_else(|e| harness_fail(&e.to_string()));
        let mut rep: E2Replay = serde_json::from_str(&text).unwrap_or_else(|e| harness_fail(&e.to_string()));
        let mut s: Scenario = serde_json::from_value(rep.scenario.clone()).unwrap_or_else(|e| harness_fail(&e.to_string()));
        let run = |s: &Scenario| -> Vec<String> {
            match execute(s, &base, rep.seed) {
                Ok(o) => o.detail,
                Err(e) => harness_fail(&e),
            }
        };
        if args.iter().any(|a| a == "--replay") {
            let d = run(&s);
            println!("RESULT {}", json!({"reproduced": !d.is_empty() && signature(&d) == rep.signature, "detail": d}));
        } else {
            // The difference may depend on hash keys and absolute paths, which are different
            // here from where it was found: add perturbation vectors until it shows again.
            let mut d0 = run(&s);
            while (d0.is_empty() || signature(&d0) != rep.signature) && s.vectors < 10 {
                s.vectors += 1;
                d0 = run(&s);
            }
            if !d0.is_empty() {
                rep.signature = signature(&d0);
                rep.detail = d0;
            }
            // drop operations one at a time while the same difference persists
            let mut i = 0;
            let mut budget = 80;
            while i < s.history.ops.len() && budget > 0 {
                let mut c = s.clone();
                c.history.ops.remove(i);
                budget -= 1;
                let d = run(&c);
                if !d.is_empty() && signature(&d) == rep.signature {
                    s = c;
                    rep.detail = d;
                } else {
                    i += 1;
                }
            }
            rep.scenario = serde_json::to_value(&s).unwrap_or_default();
            rep.minimised = true;
            println!("RESULT {}", serde_json::to_string(&rep).unwrap_or_default());
        }
        let _ = snap::wipe(&scratch);
        let _ = std::fs::remove_dir(&scratch);
        return 0;
    }
    let from: u64 = arg_after(args, "--from").and_then(|s| s.parse().ok()).unwrap_or(0);
    let to: u64 = arg_after(args, "--to").and_then(|s| s.parse().ok()).unwrap_or(0);
    let mut sum = E2Summary::default();
    for i in from..to {
        if sum.violations.len() >= 4 {
            break;
        }
        let seed = run_seed(crate::global_seed(), "e2-c20", i);
        let s = generate(seed, &tier);
        match execute(&s, &base, seed) {
            Err(e) => sum.harness_errors.push(format!("scenario {i}: {e}")),
            Ok(o) => {
                sum.runs += 1;
                sum.spawns += o.spawns;
                let shape = s.history.ops.iter().fold(0u64, |h, op| splitmix64(h ^ crate::rng::hash_str(op.kind_name())));
                let cell = format!("{shape:016x}");
                if o.nontrivial {
                    sum.nontrivial.insert(cell.clone());
                }
                sum.cells.insert(cell);
                *sum.faults.entry("hash_key_vectors".into()).or_insert(0) += s.vectors as u64;
                *sum.faults.entry("readdir_order_vectors".into()).or_insert(0) += s.vectors as u64;
                *sum.faults.entry("clock_offset_vectors".into()).or_insert(0) += s.vectors as u64 - 1;
                *sum.faults.entry("relocated_roots".into()).or_insert(0) += s.vectors as u64 - 1;
                *sum.faults.entry("source_mtime_vectors".into()).or_insert(0) += s.vectors as u64;
                if o.builds > 1 {
                    sum.probe("multi_build_scenarios");
                }
                if sum.samples.len() < 2 && s.history.ops.len() >= 4 {
                    sum.samples.push(json!({"index": i, "seed": seed, "vectors": s.vectors, "builds": o.builds,
                        "layers": s.history.layers,
                        "ops": s.history.ops.iter().take(16).map(crate::e1::brief).collect::<Vec<_>>()}));
                }
                if !o.detail.is_empty() && sum.violations.len() < 4 {
                    sum.violations.push(E2Replay {
                        engine: "e2-c20".into(),
                        property: "C20".into(),
                        seed,
                        index: i,
                        scenario: serde_json::to_value(&s).unwrap_or_default(),
                        signature: signature(&o.detail),
                        detail: o.detail,
                        minimised: false,
                    });
                }
            }
        }
    }
    let _ = snap::wipe(&scratch);
    let _ = std::fs::remove_dir(&scratch);
    println!("RESULT {}", serde_json::to_string(&sum).unwrap_or_default());
    0
}

pub fn run_check(tier: &str) -> i32 {
    let spec = CheckSpec {
        property: "C20",
        worker: "e2-c20",
        quick_runs: 600,
        thorough_runs: 40_000,
        level: "exploration",
        rule: "each scenario (seeded E1 history split into builds at the restores, a detect plan, launch/store/SBOM results) is executed in 3 (thorough: 4) fresh sequences of real buildpack processes under different simulator-chosen hash keys, readdir permutations, absolute locations and clock offsets; the normalised <layers> tree after every build and the plan file must be byte-identical; distinct = distinct op-kind sequences; non-trivial = scenarios that put at least two entries into a map-backed structure (exec.d set, env entries, metadata table)",
        assumptions: &[
            "mtimes and inode order are not compared",
            "absolute symlink targets are normalised to the world root",
            "operations whose result is an error are skipped identically in every vector (the script is deterministic)",
        ],
        stub: "CNB lifecycle (phase invocation, restore between builds), buildpack author code (scripted)",
        needs_shim_in_worker: false,
    };
    common::run_check(&spec, tier, &|_, _| 0)
}
