//! C05 — detect/build exit codes and outputs, decided against a reference decision table over
//! seeded configurations of the second party (the stub lifecycle).

use super::common::{self, CheckSpec, E2Replay, E2Summary, arg_after, harness_fail};
use super::lifecycle::{DescSpec, Dirs, Invocation, MANDATORY_ENV, PhaseResult, run_phase, snapshot};
use super::script::{BuildKind, BuildScript, DetectKind, LaunchSpec, PlanSpec, ProcSpec, RequireSpec, Script};
use super::tval::{self, TTable, gen_table, table_json, toml_to_json};
use crate::e1::ops::{History, SBOM_EXT, SbomSpec};
use crate::rng::{Rng, run_seed};
use crate::snap::{Node, show_bytes};
use serde::{Deserialize, Serialize};
use serde_json::{Value, json};
use std::ffi::OsString;
use std::path::Path;

#[derive(Clone, Debug, PartialEq, Serialize, Deserialize)]
pub enum DescKind {
    Supported,
    /// well-formed but not the supported version
    Unsupported(String),
    NonNumeric(String),
    MissingKey,
    MissingFile,
    InvalidBeyondApi,
}

#[derive(Clone, Copy, Debug, PartialEq, Eq, Serialize, Deserialize)]
pub enum InputKind {
    Valid,
    Missing,
    Malformed,
}

#[derive(Clone, Debug, PartialEq, Serialize, Deserialize)]
pub struct Scenario {
    pub arg0: String,
    /// arguments are generated for this phase (also when arg0 is not a phase name)
    pub build_phase: bool,
    pub nargs: usize,
    pub missing_env: Vec<String>,
    pub arch_variant: bool,
    pub desc: DescKind,
    pub detect: DetectKind,
    pub build: BuildScript,
    pub plan_in: InputKind,
    /// store.toml before the build: Missing = absent
    pub store_in: InputKind,
    /// pre-existing files: path relative to the world root → bytes
    pub preexisting: Vec<(String, String)>,
    pub platform_present: bool,
    /// Some(name): the started executable file itself is called `detect` / `build` (hard-link
    /// packaging) although argv[0] says something else
    #[serde(default)]
    pub exe_file_name: Option<String>,
}

#[derive(Clone, Debug, PartialEq)]
pub enum Expect {
    /// never reaches detect/build code, never exits 0
    Early(&'static str),
    /// an error before the phase callback: handler once, exit not in {0, 100}
    ErrorBeforeCallback(&'static str),
    DetectPass { plan: Option<PlanSpec> },
    DetectFail,
    /// the callback ran and the phase failed: handler once
    CallbackError,
    BuildOk,
}

fn phase_of(arg0: &str) -> Option<bool> {
    // the property speaks of "run as 'detect'" / "run as 'build'": the file name of argv[0]
    let name = arg0.rsplit('/').next().unwrap_or("");
    match name {
        "detect" => Some(false),
        "build" => Some(true),
        _ => None,
    }
}

/// `preexisting` content standing for "a directory sits at this path" (an output that has to be
/// written there cannot be: an error after the callback).
pub const PREEXISTING_DIR: &str = "\u{1}dir";

/// Output files the build result provides (relative to the world root).
fn provided_outputs(b: &BuildScript) -> Vec<String> {
    let ext = |f: u8| ["cdx", "spdx", "syft"][usize::from(f.min(2))];
    let mut v = Vec::new();
    if b.launch.is_some() {
        v.push("layers/launch.toml".to_string());
    }
    if b.store.is_some() {
        v.push("layers/store.toml".to_string());
    }
    for sb in &b.build_sboms {
        v.push(format!("layers/build.sbom.{}.json", ext(sb.format)));
    }
    for sb in &b.launch_sboms {
        v.push(format!("layers/launch.sbom.{}.json", ext(sb.format)));
    }
    v
}

pub fn expect(s: &Scenario) -> Expect {
    match &s.desc {
        DescKind::Unsupported(_) | DescKind::NonNumeric(_) | DescKind::MissingKey | DescKind::MissingFile => {
            return Expect::Early("api-or-descriptor");
        }
        _ => {}
    }
    if s.missing_env.iter().any(|e| e == "CNB_BUILDPACK_DIR") {
        return Expect::Early("missing-env");
    }
    let Some(build) = phase_of(&s.arg0) else {
        return Expect::Early("exe-name");
    };
    if s.nargs != if build { 3 } else { 2 } {
        return Expect::Early("arg-count");
    }
    if !s.missing_env.is_empty() {
        return Expect::Early("missing-env");
    }
    if s.desc == DescKind::InvalidBeyondApi {
        return Expect::ErrorBeforeCallback("descriptor");
    }
    if build {
        if s.plan_in != InputKind::Valid {
            return Expect::ErrorBeforeCallback("buildpack-plan");
        }
        if s.store_in == InputKind::Malformed {
            return Expect::ErrorBeforeCallback("store");
        }
        match s.build.kind {
            // a returned value that cannot be written down is an error after the callback
            BuildKind::Ok if s.build.launch.as_ref().is_some_and(super::script::LaunchSpec::has_unrepresentable_value) => Expect::CallbackError,
            // an output that cannot be written (a directory is in its place)
            BuildKind::Ok
                if provided_outputs(&s.build)
                    .iter()
                    .any(|o| s.preexisting.iter().any(|(p, d)| p == o && d == PREEXISTING_DIR)) =>
            {
                Expect::CallbackError
            }
            BuildKind::Ok => Expect::BuildOk,
            _ => Expect::CallbackError,
        }
    } else {
        match &s.detect {
            DetectKind::Pass => Expect::DetectPass { plan: None },
            DetectKind::PassPlan(p) => Expect::DetectPass { plan: Some(p.clone()) },
            DetectKind::Fail => Expect::DetectFail,
            DetectKind::Error(_) => Expect::CallbackError,
        }
    }
}

// ------------------------------------------------------------------ generation

fn gen_requires(r: &mut Rng) -> Vec<RequireSpec> {
    (0..r.usize(3))
        .map(|_| RequireSpec {
            name: (*r.pick(&["node", "jdk", "with space", "ünï", ""])).to_string(),
            metadata: if r.bool() { gen_table(r, 0) } else { Vec::new() },
        })
        .collect()
}

/// Up to five names from a pool of five, so an alternative often repeats a name next to two or
/// more distinct ones (seeded change C20-15: de-duplication of repeats through a hash set).
fn gen_names(r: &mut Rng) -> Vec<String> {
    (0..r.usize(6))
        .map(|_| (*r.pick(&["node", "jdk", "a b", "x\"y", ""])).to_string())
        .collect()
}

pub fn gen_plan(r: &mut Rng) -> PlanSpec {
    PlanSpec {
        provides: gen_names(r),
        requires: gen_requires(r),
        ors: (0..r.usize(3)).map(|_| (gen_names(r), gen_requires(r))).collect(),
    }
}

pub fn gen_launch(r: &mut Rng) -> LaunchSpec {
    const STR: [&str; 8] = ["run", "--flag", "with space", "", "quote\"d", "ünï", "line\nbreak", "-"];
    LaunchSpec {
        processes: (0..r.usize(4))
            .map(|_| ProcSpec {
                r#type: (*r.pick(&["web", "worker", "a.b-c_d", "W1"])).to_string(),
                command: (0..1 + r.usize(2)).map(|_| (*r.pick(&STR)).to_string()).collect(),
                args: (0..r.usize(3)).map(|_| (*r.pick(&STR)).to_string()).collect(),
                default: r.chance(1, 3),
                workdir: match r.below(4) {
                    0 => Some("/workspace/sub".to_string()),
                    1 => Some("rel/dir".to_string()),
                    _ => None,
                },
            })
            .collect(),
        labels: (0..r.usize(3))
            .map(|_| ((*r.pick(&["k", "io.x/y", ""])).to_string(), (*r.pick(&STR)).to_string()))
            .collect(),
        slices: (0..r.usize(3))
            .map(|_| (0..r.usize(3)).map(|_| (*r.pick(&["*.txt", "dir/**", ""])).to_string()).collect())
            .collect(),
    }
}

fn gen_sbom_list(r: &mut Rng) -> Vec<SbomSpec> {
    (0..r.usize(4))
        .map(|_| SbomSpec {
            format: r.below(3) as u8,
            data: match r.below(3) {
                0 => b"{\"bom\":1}".to_vec(),
                1 => r.bytes(8),
                _ => Vec::new(),
            },
        })
        .collect()
}

pub fn empty_history() -> History {
    History {
        layers: Vec::new(),
        foreign: Vec::new(),
        ops: Vec::new(),
    }
}

pub fn generate(seed: u64) -> Scenario {
    let mut r = Rng::sub(seed, "c05");
    let build_phase = r.bool();
    let proper = if build_phase { "build" } else { "detect" };
    // number of deviations from a well-formed invocation
    let deviations = match r.below(20) {
        0..=9 => 0,
        10..=16 => 1,
        _ => 2,
    };
    let mut s = Scenario {
        arg0: match r.below(4) {
            0 => proper.to_string(),
            1 => format!("/cnb/buildpacks/sim/bin/{proper}"),
            2 => format!("./{proper}"),
            _ => format!("bin/{proper}"),
        },
        build_phase,
        nargs: if build_phase { 3 } else { 2 },
        missing_env: Vec::new(),
        arch_variant: r.bool(),
        desc: DescKind::Supported,
        detect: match r.below(6) {
            0 | 1 => DetectKind::Pass,
            2 | 3 => DetectKind::PassPlan(gen_plan(&mut r)),
            4 => DetectKind::Fail,
            _ => DetectKind::Error(7000 + r.below(100) as u32),
        },
        build: BuildScript {
            kind: match r.below(8) {
                0 => BuildKind::Error(8000 + r.below(100) as u32),
                1 => BuildKind::LayerError,
                _ => BuildKind::Ok,
            },
            history: empty_history(),
            launch: r.bool().then(|| gen_launch(&mut r)),
            store: r.bool().then(|| gen_table(&mut r, 0)),
            build_sboms: if r.bool() { gen_sbom_list(&mut r) } else { Vec::new() },
            launch_sboms: if r.bool() { gen_sbom_list(&mut r) } else { Vec::new() },
            launch_sboms_first: r.bool(),
            store_tamper: 0,
        },
        plan_in: InputKind::Valid,
        store_in: if r.bool() { InputKind::Valid } else { InputKind::Missing },
        preexisting: Vec::new(),
        platform_present: r.chance(7, 8),
        exe_file_name: None,
    };
    if r.chance(1, 12) {
        if let Some(p) = s.build.launch.as_mut().and_then(|l| l.processes.first_mut()) {
            p.workdir = Some(super::script::WORKDIR_NOT_UTF8.to_string());
        }
    }
    // an author who echoes the restored store and manages `store.toml` by hand on the way
    if s.build_phase && s.store_in == InputKind::Valid && r.chance(1, 5) {
        s.build.store = Some(vec![("old".to_string(), super::tval::TVal::Str("store".to_string()))]);
        s.build.store_tamper = 1 + r.below(2) as u8;
    }
    for _ in 0..deviations {
        match r.below(9) {
            0 => {
                s.arg0 = (*r.pick(&["detect.sh", "Detect", "detectx", "xbuild", "simbp", "launch", "", "BUILD", "bin/main", "analyze", "bin/compile"]))
                    .to_string();
                // the file behind that name may well be the one called detect / build
                if r.bool() {
                    s.exe_file_name = Some(if s.build_phase { "build".into() } else { "detect".into() });
                }
            }
            1 => {
                let wrong: Vec<usize> = (0..6).filter(|n| *n != s.nargs).collect();
                s.nargs = *r.pick(&wrong);
            }
            2 => s.missing_env.push((*r.pick(&MANDATORY_ENV)).to_string()),
            3 => s.desc = DescKind::Unsupported((*r.pick(&["0.9", "0.11", "1.0", "0.1", "0.100", "10.0", "1.10", "2.10", "7.10"])).to_string()),
            4 => s.desc = DescKind::NonNumeric((*r.pick(&["abc", "0.x", "", "0.10.1", "-1", "0,10", " "])).to_string()),
            5 => s.desc = if r.bool() { DescKind::MissingKey } else { DescKind::MissingFile },
            6 => s.desc = DescKind::InvalidBeyondApi,
            7 => s.plan_in = if r.bool() { InputKind::Missing } else { InputKind::Malformed },
            _ => s.store_in = InputKind::Malformed,
        }
    }
    // pre-existing output files
    for (path, chance) in [
        ("plan-out.toml", 2),
        ("layers/launch.toml", 3),
        ("layers/build.sbom.cdx.json", 4),
        ("layers/launch.sbom.spdx.json", 4),
        ("layers/unrelated.txt", 3),
        ("layers/other.toml", 4),
    ] {
        if r.chance(1, chance) {
            s.preexisting
                .push((path.to_string(), format!("stale = \"{}\"\n", r.below(1000))));
        }
    }
    // sometimes directories sit where outputs belong (several at once)
    if r.chance(1, 10) {
        for path in ["layers/launch.toml", "layers/build.sbom.cdx.json", "layers/build.sbom.syft.json", "layers/launch.sbom.spdx.json", "layers/launch.sbom.cdx.json"] {
            if r.bool() {
                s.preexisting.retain(|(p, _)| p != path);
                s.preexisting.push((path.to_string(), PREEXISTING_DIR.to_string()));
            }
        }
    }
    s
}

// ------------------------------------------------------------------ execution

fn descriptor_text(k: &DescKind) -> Option<String> {
    let mut d = DescSpec::minimal();
    match k {
        DescKind::Supported => {}
        DescKind::Unsupported(v) | DescKind::NonNumeric(v) => d.api = Some(v.clone()),
        DescKind::MissingKey => d.api = None,
        DescKind::MissingFile => return None,
        DescKind::InvalidBeyondApi => d.unknown_key = true,
    }
    Some(d.emit())
}

pub struct Executed {
    pub result: PhaseResult,
    pub before: crate::snap::Snap,
    pub after: crate::snap::Snap,
}

pub fn execute(s: &Scenario, root: &Path, shim_plan: Option<String>) -> Result<Executed, String> {
    execute_with(s, root, shim_plan, None)
}

/// `marker_dir`: where the scripted buildpack keeps its own bookkeeping (outside the faulted
/// prefix when faults are injected).
pub fn execute_with(
    s: &Scenario,
    root: &Path,
    shim_plan: Option<String>,
    marker_dir: Option<&Path>,
) -> Result<Executed, String> {
    let mut d = Dirs::create(root).map_err(|e| e.to_string())?;
    if let Some(m) = marker_dir {
        std::fs::create_dir_all(m).map_err(|e| e.to_string())?;
        let _ = std::fs::remove_dir(&d.markers);
        d.markers = m.to_path_buf();
    }
    if let Some(text) = descriptor_text(&s.desc) {
        std::fs::write(d.buildpack.join("buildpack.toml"), text).map_err(|e| e.to_string())?;
    }
    if s.platform_present {
        std::fs::create_dir_all(d.platform.join("env")).map_err(|e| e.to_string())?;
        std::fs::write(d.platform.join("env/FOO"), "bar").map_err(|e| e.to_string())?;
    } else {
        let _ = std::fs::remove_dir_all(&d.platform);
    }
    match s.plan_in {
        InputKind::Valid => std::fs::write(&d.plan_in, "[[entries]]\nname = \"x\"\n").map_err(|e| e.to_string())?,
        InputKind::Malformed => std::fs::write(&d.plan_in, "[[entries]\nname = ").map_err(|e| e.to_string())?,
        InputKind::Missing => {}
    }
    match s.store_in {
        InputKind::Valid => {
            std::fs::write(d.layers.join("store.toml"), "[metadata]\nold = \"store\"\n").map_err(|e| e.to_string())?;
        }
        InputKind::Malformed => std::fs::write(d.layers.join("store.toml"), "metadata = 3\n").map_err(|e| e.to_string())?,
        InputKind::Missing => {}
    }
    for (p, data) in &s.preexisting {
        if data == PREEXISTING_DIR {
            std::fs::create_dir_all(root.join(p)).map_err(|e| e.to_string())?;
        } else {
            std::fs::write(root.join(p), data).map_err(|e| e.to_string())?;
        }
    }
    let mut env: Vec<(String, String)> = Vec::new();
    let mut put = |k: &str, v: String| {
        if !s.missing_env.iter().any(|m| m == k) {
            env.push((k.to_string(), v));
        }
    };
    put("CNB_BUILDPACK_DIR", d.buildpack.display().to_string());
    put("CNB_TARGET_OS", "linux".into());
    put("CNB_TARGET_ARCH", "amd64".into());
    put("CNB_TARGET_DISTRO_NAME", "ubuntu".into());
    put("CNB_TARGET_DISTRO_VERSION", "24.04".into());
    if s.arch_variant {
        env.push(("CNB_TARGET_ARCH_VARIANT".into(), "v8".into()));
    }
    // what a current lifecycle exports besides passing the positional arguments
    env.push(("CNB_PLATFORM_DIR".into(), d.platform.display().to_string()));
    if s.build_phase {
        env.push(("CNB_LAYERS_DIR".into(), d.layers.display().to_string()));
        env.push(("CNB_BP_PLAN_PATH".into(), d.plan_in.display().to_string()));
    } else {
        env.push(("CNB_BUILD_PLAN_PATH".into(), d.plan_out.display().to_string()));
    }
    let proper: Vec<OsString> = if s.build_phase {
        vec![d.layers.clone().into(), d.platform.clone().into(), d.plan_in.clone().into()]
    } else {
        vec![d.platform.clone().into(), d.plan_out.clone().into()]
    };
    let mut args: Vec<OsString> = proper.into_iter().take(s.nargs).collect();
    while args.len() < s.nargs {
        args.push(OsString::from("extra-argument"));
    }
    let script = Script {
        marker_dir: d.markers.clone(),
        detect: s.detect.clone(),
        build: s.build.clone(),
    };
    let before = snapshot(root);
    let inv = Invocation {
        arg0: s.arg0.clone(),
        args,
        env,
        cwd: d.app.clone(),
        shim_plan,
        exe_file_name: s.exe_file_name.clone(),
    };
    let script_path = marker_dir.map_or_else(|| root.join("script.json"), |m| m.join("script.json"));
    let result = run_phase(&inv, &script, &script_path)?;
    let after = snapshot(root);
    Ok(Executed { result, before, after })
}

// ------------------------------------------------------------------ oracle helpers

fn parse_toml_file(snap: &crate::snap::Snap, path: &str) -> Result<Value, String> {
    match snap.get(path.as_bytes()) {
        Some(Node::File { data, .. }) => {
            let text = std::str::from_utf8(data).map_err(|e| format!("{path}: not UTF-8: {e}"))?;
            let t: toml::Table = text.parse().map_err(|e| format!("{path}: not valid TOML: {e}"))?;
            Ok(toml_to_json(&toml::Value::Table(t)))
        }
        _ => Err(format!("{path}: missing")),
    }
}

fn take_arr(v: &Value, key: &str) -> Vec<Value> {
    v.get(key).and_then(Value::as_array).cloned().unwrap_or_default()
}

fn unknown_keys(v: &Value, allowed: &[&str]) -> Vec<String> {
    v.as_object()
        .map(|m| m.keys().filter(|k| !allowed.contains(&k.as_str())).cloned().collect())
        .unwrap_or_default()
}

/// Canonical form of a build plan document under the spec's defaults.
fn canon_plan(v: &Value) -> Result<Value, String> {
    let group = |g: &Value| -> Result<Value, String> {
        let extra = unknown_keys(g, &["provides", "requires", "or"]);
        if !extra.is_empty() {
            return Err(format!("unknown keys {extra:?}"));
        }
        let provides: Vec<Value> = take_arr(g, "provides")
            .iter()
            .map(|p| json!({"name": p.get("name").cloned().unwrap_or(Value::Null)}))
            .collect();
        let requires: Vec<Value> = take_arr(g, "requires")
            .iter()
            .map(|p| json!({"name": p.get("name").cloned().unwrap_or(Value::Null),
                            "metadata": p.get("metadata").cloned().unwrap_or_else(|| json!({}))}))
            .collect();
        Ok(json!({"provides": provides, "requires": requires}))
    };
    let head = group(v)?;
    let ors: Result<Vec<Value>, String> = take_arr(v, "or").iter().map(group).collect();
    Ok(json!({"head": head, "or": ors?}))
}

fn expected_plan(p: &PlanSpec) -> Value {
    let group = |provides: &[String], requires: &[RequireSpec]| {
        json!({
            "provides": provides.iter().map(|n| json!({"name": n})).collect::<Vec<_>>(),
            "requires": requires.iter().map(|r| json!({"name": r.name, "metadata": table_json(&r.metadata)})).collect::<Vec<_>>(),
        })
    };
    json!({
        "head": group(&p.provides, &p.requires),
        "or": p.ors.iter().map(|(a, b)| group(a, b)).collect::<Vec<_>>(),
    })
}

fn canon_launch(v: &Value) -> Result<Value, String> {
    let extra = unknown_keys(v, &["processes", "labels", "slices"]);
    if !extra.is_empty() {
        return Err(format!("unknown keys {extra:?}"));
    }
    let processes: Result<Vec<Value>, String> = take_arr(v, "processes")
        .iter()
        .map(|p| {
            let extra = unknown_keys(p, &["type", "command", "args", "default", "working-dir"]);
            if !extra.is_empty() {
                return Err(format!("unknown process keys {extra:?}"));
            }
            Ok(json!({
                "type": p.get("type").cloned().unwrap_or(Value::Null),
                "command": p.get("command").cloned().unwrap_or(Value::Null),
                "args": p.get("args").cloned().unwrap_or_else(|| json!([])),
                "default": p.get("default").cloned().unwrap_or_else(|| json!(false)),
                "working-dir": p.get("working-dir").cloned().unwrap_or(Value::Null),
            }))
        })
        .collect();
    Ok(json!({
        "processes": processes?,
        "labels": take_arr(v, "labels"),
        "slices": take_arr(v, "slices"),
    }))
}

fn expected_launch(l: &LaunchSpec) -> Value {
    json!({
        "processes": l.processes.iter().map(|p| json!({
            "type": p.r#type, "command": p.command, "args": p.args, "default": p.default,
            "working-dir": p.workdir,
        })).collect::<Vec<_>>(),
        "labels": l.labels.iter().map(|(k, v)| json!({"key": k, "value": v})).collect::<Vec<_>>(),
        "slices": l.slices.iter().map(|s| json!({"paths": s})).collect::<Vec<_>>(),
    })
}

fn expected_sboms(list: &[SbomSpec]) -> [Option<Vec<u8>>; 3] {
    let mut out: [Option<Vec<u8>>; 3] = [None, None, None];
    for s in list {
        out[s.format as usize] = Some(s.data.clone());
    }
    out
}

/// Returns violation details (empty = the decision table is satisfied).
pub fn judge(s: &Scenario, x: &Executed) -> Vec<String> {
    let mut v: Vec<String> = Vec::new();
    let r = &x.result;
    let status = r.status();
    let detect_n = r.count("detect");
    let build_n = r.count("build");
    let on_error_n = r.count("on_error");
    let unchanged = |path: &str, v: &mut Vec<String>| {
        if x.before.get(path.as_bytes()) != x.after.get(path.as_bytes()) {
            v.push(format!(
                "{path} changed: before {:?} after {:?}",
                x.before.get(path.as_bytes()).map(Node::describe),
                x.after.get(path.as_bytes()).map(Node::describe)
            ));
        }
    };
    let e = expect(s);
    match &e {
        Expect::Early(why) => {
            if detect_n + build_n > 0 {
                v.push(format!("detect/build code was reached although the invocation is invalid ({why})"));
            }
            if status == 0 {
                v.push(format!("exit status 0 for an invalid invocation ({why})"));
            }
            if on_error_n > 1 {
                v.push(format!("error handler ran {on_error_n} times"));
            }
        }
        Expect::ErrorBeforeCallback(why) => {
            if detect_n + build_n > 0 {
                v.push(format!("detect/build code ran although {why} could not be read"));
            }
            if on_error_n != 1 {
                v.push(format!("error handler ran {on_error_n} times for an error ({why}), expected once"));
            }
            if status == 0 || status == 100 {
                v.push(format!("exit status {status} for an error ({why})"));
            }
        }
        Expect::DetectPass { plan } => {
            if detect_n != 1 || build_n != 0 {
                v.push(format!("detect ran {detect_n} times, build {build_n} times"));
            }
            if on_error_n != 0 {
                v.push("error handler ran although detection passed".into());
            }
            if status != 0 {
                v.push(format!("exit status {status}, detection passed so 0 is required"));
            }
            match plan {
                None => unchanged("plan-out.toml", &mut v),
                Some(p) => match parse_toml_file(&x.after, "plan-out.toml").and_then(|d| canon_plan(&d)) {
                    Ok(got) => {
                        let want = expected_plan(p);
                        if got != want {
                            v.push(format!("build plan on disk {got} differs from the plan the buildpack returned {want}"));
                        }
                    }
                    Err(e) => v.push(format!("build plan: {e}")),
                },
            }
        }
        Expect::DetectFail => {
            if detect_n != 1 {
                v.push(format!("detect ran {detect_n} times"));
            }
            if status != 100 {
                v.push(format!("exit status {status}, detection failed so 100 is required"));
            }
            if on_error_n != 0 {
                v.push("error handler ran although detection merely failed".into());
            }
            unchanged("plan-out.toml", &mut v);
        }
        Expect::CallbackError => {
            let phase_n = if s.build_phase { build_n } else { detect_n };
            if phase_n != 1 {
                v.push(format!("phase callback ran {phase_n} times"));
            }
            if on_error_n != 1 {
                v.push(format!("error handler ran {on_error_n} times, expected exactly once"));
            }
            if status == 0 || (!s.build_phase && status == 100) {
                v.push(format!("exit status {status} after an error"));
            }
        }
        Expect::BuildOk => {
            if build_n != 1 || detect_n != 0 {
                v.push(format!("build ran {build_n} times, detect {detect_n} times"));
            }
            if on_error_n != 0 {
                v.push("error handler ran although build succeeded".into());
            }
            if status != 0 {
                v.push(format!("exit status {status} for a successful build"));
            }
            // launch.toml
            match &s.build.launch {
                None => unchanged("layers/launch.toml", &mut v),
                Some(l) => match parse_toml_file(&x.after, "layers/launch.toml").and_then(|d| canon_launch(&d)) {
                    Ok(got) => {
                        let want = expected_launch(l);
                        if got != want {
                            v.push(format!("launch.toml {got} differs from the launch configuration returned {want}"));
                        }
                    }
                    Err(e) => v.push(format!("launch.toml: {e}")),
                },
            }
            match &s.build.store {
                None if s.build.store_tamper != 0 => {} // the author's own bytes; nothing to require
                None => unchanged("layers/store.toml", &mut v),
                Some(t) => match parse_toml_file(&x.after, "layers/store.toml") {
                    Ok(got) => {
                        let want = json!({"metadata": table_json(t)});
                        if got != want {
                            v.push(format!("store.toml {got} differs from the store returned {want}"));
                        }
                    }
                    Err(e) => v.push(format!("store.toml: {e}")),
                },
            }
            for (base, list) in [("build", &s.build.build_sboms), ("launch", &s.build.launch_sboms)] {
                let want = expected_sboms(list);
                for (f, ext) in SBOM_EXT.iter().enumerate() {
                    let path = format!("layers/{base}.sbom.{ext}");
                    match &want[f] {
                        None => unchanged(&path, &mut v),
                        Some(data) => match x.after.get(path.as_bytes()) {
                            Some(Node::File { data: got, .. }) if got == data => {}
                            other => v.push(format!(
                                "{path}: expected {} got {:?}",
                                show_bytes(data, 40),
                                other.map(Node::describe)
                            )),
                        },
                    }
                }
            }
            // every other pre-existing entry of <layers> is untouched, nothing else appears
            let outputs = |k: &[u8]| {
                let k = String::from_utf8_lossy(k);
                k == "layers/launch.toml"
                    || k == "layers/store.toml"
                    || k.starts_with("layers/build.sbom.")
                    || k.starts_with("layers/launch.sbom.")
            };
            for (k, n) in x.before.beneath(b"layers") {
                if !outputs(k) && x.after.get(k) != Some(n) {
                    v.push(format!("{} changed or vanished", show_bytes(k, 80)));
                }
            }
            for (k, n) in x.after.beneath(b"layers") {
                if !outputs(k) && !x.before.contains(k) {
                    v.push(format!("unexpected new entry {}: {}", show_bytes(k, 80), n.describe()));
                }
            }
        }
    }
    if r.timed_out {
        v.push("phase did not terminate".into());
    }
    v
}

pub fn cell(s: &Scenario, x: &Executed) -> String {
    format!(
        "{:?}|{}|exit{}|onerr{}",
        std::mem::discriminant(&expect(s)),
        match expect(s) {
            Expect::Early(w) | Expect::ErrorBeforeCallback(w) => w.to_string(),
            Expect::DetectPass { plan } => format!("pass{}", u8::from(plan.is_some())),
            Expect::DetectFail => "fail".into(),
            Expect::CallbackError => format!("cberr-{}", if s.build_phase { "build" } else { "detect" }),
            Expect::BuildOk => format!(
                "ok-l{}s{}b{}l{}",
                u8::from(s.build.launch.is_some()),
                u8::from(s.build.store.is_some()),
                s.build.build_sboms.len().min(2),
                s.build.launch_sboms.len().min(2)
            ),
        },
        x.result.status(),
        x.result.count("on_error")
    )
    .replace("Discriminant", "")
}

fn signature(detail: &[String]) -> String {
    let first: String = detail
        .first()
        .map(|l| l.chars().filter(|c| !c.is_ascii_digit()).take(80).collect())
        .unwrap_or_default();
    format!("C05:{first}")
}

/// One-dimension-at-a-time simplification towards the default well-formed scenario.
fn simplifications(s: &Scenario) -> Vec<Scenario> {
    let mut out = Vec::new();
    let proper = if s.build_phase { "build" } else { "detect" };
    let mut push = |f: &dyn Fn(&mut Scenario)| {
        let mut c = s.clone();
        f(&mut c);
        if c != *s {
            out.push(c);
        }
    };
    push(&|c| c.preexisting.clear());
    push(&|c| c.missing_env.clear());
    push(&|c| c.desc = DescKind::Supported);
    push(&|c| c.arg0 = proper.to_string());
    push(&|c| c.nargs = if c.build_phase { 3 } else { 2 });
    push(&|c| c.plan_in = InputKind::Valid);
    push(&|c| c.store_in = InputKind::Missing);
    push(&|c| c.platform_present = true);
    push(&|c| c.arch_variant = false);
    push(&|c| c.build.launch = None);
    push(&|c| c.build.store = None);
    push(&|c| c.build.build_sboms.clear());
    push(&|c| c.build.launch_sboms.clear());
    push(&|c| c.detect = DetectKind::Pass);
    push(&|c| {
        if let Some(l) = &mut c.build.launch {
            l.labels.clear();
            l.slices.clear();
        }
    });
    push(&|c| {
        if let Some(l) = &mut c.build.launch {
            l.processes.truncate(1);
        }
    });
    push(&|c| {
        if let DetectKind::PassPlan(p) = &mut c.detect {
            p.ors.clear();
        }
    });
    push(&|c| {
        if let DetectKind::PassPlan(p) = &mut c.detect {
            p.requires.truncate(1);
            p.provides.truncate(1);
        }
    });
    out
}

pub fn worker(args: &[String]) -> i32 {
    let scratch = common::worker_scratch(&format!("c05-{}", arg_after(args, "--id").unwrap_or_else(|| "x".into())));
    let root = scratch.join("w");
    if let Some(file) = arg_after(args, "--minimise").or_else(|| arg_after(args, "--replay")) {
        let text = std::fs::read_to_string(&file).unwrap_or_else(|e| harness_fail(&e.to_string()));
        let mut rep: E2Replay = serde_json::from_str(&text).unwrap_or_else(|e| harness_fail(&e.to_string()));
        let mut s: Scenario = serde_json::from_value(rep.scenario.clone()).unwrap_or_else(|e| harness_fail(&e.to_string()));
        let run = |s: &Scenario| -> Vec<String> {
            match execute(s, &root, None) {
                Ok(x) => judge(s, &x),
                Err(e) => harness_fail(&e),
            }
        };
        if args.iter().any(|a| a == "--replay") {
            let d = run(&s);
            let reproduced = !d.is_empty() && signature(&d) == rep.signature;
            println!("RESULT {}", json!({"reproduced": reproduced, "detail": d}));
        } else {
            let mut progress = true;
            while progress {
                progress = false;
                for c in simplifications(&s) {
                    let d = run(&c);
                    if !d.is_empty() && signature(&d) == rep.signature {
                        s = c;
                        rep.detail = d;
                        progress = true;
                        break;
                    }
                }
            }
            rep.scenario = serde_json::to_value(&s).unwrap_or_default();
            rep.minimised = true;
            println!("RESULT {}", serde_json::to_string(&rep).unwrap_or_default());
        }
        let _ = crate::snap::wipe(&scratch);
        let _ = std::fs::remove_dir(&scratch);
        return 0;
    }
    let from: u64 = arg_after(args, "--from").and_then(|s| s.parse().ok()).unwrap_or(0);
    let to: u64 = arg_after(args, "--to").and_then(|s| s.parse().ok()).unwrap_or(0);
    let mut sum = E2Summary::default();
    for i in from..to {
        if sum.violations.len() >= 4 {
            break;
        }
        let seed = run_seed(crate::global_seed(), "e2-c05", i);
        let s = generate(seed);
        match execute(&s, &root, None) {
            Err(e) => sum.harness_errors.push(format!("scenario {i}: {e}")),
            Ok(x) => {
                sum.runs += 1;
                sum.spawns += 1;
                let c = cell(&s, &x);
                if !matches!(expect(&s), Expect::Early(_)) || !s.preexisting.is_empty() {
                    sum.nontrivial.insert(c.clone());
                }
                sum.cells.insert(c);
                if !s.preexisting.is_empty() {
                    sum.probe("preexisting_outputs");
                }
                if s.build.store_tamper != 0 && matches!(expect(&s), Expect::BuildOk) {
                    sum.probe("author_touched_store_toml_and_build_succeeded");
                }
                let repeats = |n: &Vec<String>| {
                    let d: std::collections::BTreeSet<&String> = n.iter().collect();
                    d.len() >= 2 && d.len() < n.len()
                };
                if let DetectKind::PassPlan(p) = &s.detect {
                    if !s.build_phase && (repeats(&p.provides) || p.ors.iter().any(|(n, _)| repeats(n))) {
                        sum.probe("plan_alternative_repeats_a_name_next_to_two_distinct");
                    }
                }
                if x.result.signal.is_some() {
                    sum.probe("phase_killed_by_signal");
                }
                if sum.samples.len() < 2 {
                    sum.samples.push(json!({"index": i, "seed": seed, "arg0": s.arg0, "nargs": s.nargs,
                        "missing_env": s.missing_env, "descriptor": format!("{:?}", s.desc),
                        "expect": format!("{:?}", expect(&s)).chars().take(160).collect::<String>(),
                        "exit": x.result.status(), "markers": x.result.markers}));
                }
                let d = judge(&s, &x);
                if !d.is_empty() && sum.violations.len() < 4 {
                    let mut detail = d.clone();
                    detail.push(format!("exit={} markers={:?} stderr={}", x.result.status(), x.result.markers, x.result.stderr_head.replace('\n', " | ")));
                    sum.violations.push(E2Replay {
                        engine: "e2-c05".into(),
                        property: "C05".into(),
                        seed,
                        index: i,
                        scenario: serde_json::to_value(&s).unwrap_or_default(),
                        signature: signature(&d),
                        detail,
                        minimised: false,
                    });
                }
            }
        }
    }
    let _ = crate::snap::wipe(&scratch);
    let _ = std::fs::remove_dir(&scratch);
    println!("RESULT {}", serde_json::to_string(&sum).unwrap_or_default());
    0
}

pub fn run_check(tier: &str) -> i32 {
    let spec = CheckSpec {
        property: "C05",
        worker: "e2-c05",
        quick_runs: 4_000,
        thorough_runs: 400_000,
        level: "exploration",
        rule: "seeded sampling of the product executable name x argument count x buildpack.toml kind x presence of each CNB_* variable x buildpack behaviour x input files x pre-existing outputs, each executed as a real buildpack process; distinct = distinct (expected class, behaviour detail, exit status, handler count) cells; non-trivial = cells that reach past argument/descriptor validation or start with pre-existing outputs",
        assumptions: &[
            "concrete non-zero exit codes are recorded, not required",
            "for the four 'never reaches detect/build' classes the error handler is only required to run at most once",
            "version strings with a sign are left out of the malformed class (a C09 matter)",
            "removal of stale outputs the result did not provide is not required",
        ],
        stub: "CNB lifecycle (directory layout, phase invocation), buildpack author code (scripted)",
        needs_shim_in_worker: false,
    };
    // second class: the error protocol when a file-system call of a passing detect / succeeding
    // build fails (every call position x 3 errnos for each sampled scenario)
    common::run_check(&spec, tier, &|_, ev| {
        let pf = super::faults::run_phase_faults_for(tier, "C05");
        for l in &pf.lines {
            println!("{l}");
        }
        ev.cov(
            "error_protocol_under_injected_faults",
            serde_json::json!({
                "scenarios": pf.scenarios, "process_runs": pf.executions, "faults_fired": pf.fired,
                "by_libc_call": pf.fired_by_call, "exited_nonzero": pf.outcome_err, "exited_zero": pf.outcome_ok_same,
                "rule": "for each sampled well-formed invocation whose phase succeeds, every k-th file-system call beneath its world fails once with EIO, EACCES, ENOSPC and ENOTDIR: never exit 100, handler at most once, exactly once if detect/build code ran and the exit is non-zero, never exit 0 after the handler ran",
            }),
        );
        pf.violations as i64
    })
}

// keep the TVal import used for metadata generation in sibling modules
#[allow(dead_code)]
fn _unused(_: &TTable, _: &tval::TVal) {}
