//! What the scripted buildpack executable does, fixed by the simulator before it is spawned.

use super::tval::TTable;
use crate::e1::ops::{History, SbomSpec};
use serde::{Deserialize, Serialize};
use std::path::PathBuf;

#[derive(Clone, Debug, PartialEq, Serialize, Deserialize)]
pub struct RequireSpec {
    pub name: String,
    pub metadata: TTable,
}

#[derive(Clone, Debug, Default, PartialEq, Serialize, Deserialize)]
pub struct PlanSpec {
    pub provides: Vec<String>,
    pub requires: Vec<RequireSpec>,
    /// alternative groups added after `.or()`
    pub ors: Vec<(Vec<String>, Vec<RequireSpec>)>,
}

#[derive(Clone, Debug, PartialEq, Serialize, Deserialize)]
pub enum DetectKind {
    Pass,
    PassPlan(PlanSpec),
    Fail,
    Error(u32),
}

#[derive(Clone, Debug, PartialEq, Serialize, Deserialize)]
pub struct ProcSpec {
    pub r#type: String,
    pub command: Vec<String>,
    pub args: Vec<String>,
    pub default: bool,
    /// None = app directory
    pub workdir: Option<String>,
}

/// `ProcSpec::workdir` value standing for a directory whose name is not valid UTF-8
/// (bytes `srv/d\xE4ta`): it cannot be written to launch.toml, so the build must fail loudly.
pub const WORKDIR_NOT_UTF8: &str = "\u{1}not-utf8";

impl LaunchSpec {
    pub fn has_unrepresentable_value(&self) -> bool {
        self.processes.iter().any(|p| p.workdir.as_deref() == Some(WORKDIR_NOT_UTF8))
    }
}

#[derive(Clone, Debug, Default, PartialEq, Serialize, Deserialize)]
pub struct LaunchSpec {
    pub processes: Vec<ProcSpec>,
    pub labels: Vec<(String, String)>,
    pub slices: Vec<Vec<String>>,
}

#[derive(Clone, Debug, PartialEq, Serialize, Deserialize)]
pub enum BuildKind {
    Ok,
    Error(u32),
    /// provoke a libcnb LayerError (exec.d program whose source does not exist) and propagate it
    LayerError,
}

#[derive(Clone, Debug, PartialEq, Serialize, Deserialize)]
pub struct BuildScript {
    pub kind: BuildKind,
    /// layer operations to run against the real BuildContext first
    pub history: History,
    pub launch: Option<LaunchSpec>,
    pub store: Option<TTable>,
    pub build_sboms: Vec<SbomSpec>,
    pub launch_sboms: Vec<SbomSpec>,
    /// the author adds the launch SBOMs to the result before the build SBOMs
    #[serde(default)]
    pub launch_sboms_first: bool,
    /// the author's own code touches `<layers>/store.toml` before returning (0: no, 1: removes it,
    /// 2: overwrites it with another valid document); the store it returns must still be written
    #[serde(default)]
    pub store_tamper: u8,
}

#[derive(Clone, Debug, PartialEq, Serialize, Deserialize)]
pub struct Script {
    /// directory for the marker file and the context dumps (never inside a CNB directory)
    pub marker_dir: PathBuf,
    pub detect: DetectKind,
    pub build: BuildScript,
}

pub const SCRIPT_ENV: &str = "VERIF_SIMBP_SCRIPT";
