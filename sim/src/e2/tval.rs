//! A small TOML value model with its own emitter (independent of the `toml` crate), and a
//! conversion to JSON for comparison with what the buildpack process saw.

use crate::rng::Rng;
use serde::{Deserialize, Serialize};
use serde_json::json;

#[derive(Clone, Debug, PartialEq, Serialize, Deserialize)]
pub enum TVal {
    Str(String),
    Int(i64),
    Bool(bool),
    /// floats restricted to values with an exact short decimal form
    Float(f64),
    Arr(Vec<TVal>),
    Table(Vec<(String, TVal)>),
}

pub type TTable = Vec<(String, TVal)>;

pub fn escape(s: &str) -> String {
    let mut o = String::from("\"");
    for c in s.chars() {
        match c {
            '"' => o.push_str("\\\""),
            '\\' => o.push_str("\\\\"),
            '\n' => o.push_str("\\n"),
            '\t' => o.push_str("\\t"),
            '\r' => o.push_str("\\r"),
            c if (c as u32) < 0x20 || c as u32 == 0x7f => o.push_str(&format!("\\u{:04X}", c as u32)),
            c => o.push(c),
        }
    }
    o.push('"');
    o
}

pub fn key(s: &str) -> String {
    if !s.is_empty() && s.chars().all(|c| c.is_ascii_alphanumeric() || c == '_' || c == '-') {
        s.to_string()
    } else {
        escape(s)
    }
}

impl TVal {
    pub fn inline(&self) -> String {
        match self {
            TVal::Str(s) => escape(s),
            TVal::Int(i) => i.to_string(),
            TVal::Bool(b) => b.to_string(),
            TVal::Float(f) => {
                let s = format!("{f}");
                if s.contains('.') || s.contains('e') { s } else { format!("{s}.0") }
            }
            TVal::Arr(a) => format!("[{}]", a.iter().map(TVal::inline).collect::<Vec<_>>().join(", ")),
            TVal::Table(t) => format!(
                "{{ {} }}",
                t.iter().map(|(k, v)| format!("{} = {}", key(k), v.inline())).collect::<Vec<_>>().join(", ")
            ),
        }
    }

    pub fn to_json(&self) -> serde_json::Value {
        match self {
            TVal::Str(s) => json!(s),
            TVal::Int(i) => json!(i),
            TVal::Bool(b) => json!(b),
            TVal::Float(f) => json!(f),
            TVal::Arr(a) => serde_json::Value::Array(a.iter().map(TVal::to_json).collect()),
            TVal::Table(t) => table_json(t),
        }
    }
}

pub fn table_json(t: &TTable) -> serde_json::Value {
    let mut m = serde_json::Map::new();
    for (k, v) in t {
        m.insert(k.clone(), v.to_json());
    }
    serde_json::Value::Object(m)
}

/// `key = value` lines for a table body (nested tables inline).
pub fn body(t: &TTable) -> String {
    let mut s = String::new();
    for (k, v) in t {
        s.push_str(&format!("{} = {}\n", key(k), v.inline()));
    }
    s
}

/// The same conversion for values the buildpack process received (it necessarily holds them
/// as `toml::Value`, because that is what libcnb hands out).
pub fn toml_to_json(v: &toml::Value) -> serde_json::Value {
    match v {
        toml::Value::String(s) => json!(s),
        toml::Value::Integer(i) => json!(i),
        toml::Value::Float(f) => json!(f),
        toml::Value::Boolean(b) => json!(b),
        toml::Value::Datetime(d) => json!(d.to_string()),
        toml::Value::Array(a) => serde_json::Value::Array(a.iter().map(toml_to_json).collect()),
        toml::Value::Table(t) => toml_table_to_json(t),
    }
}

pub fn toml_table_to_json(t: &toml::Table) -> serde_json::Value {
    let mut m = serde_json::Map::new();
    for (k, v) in t {
        m.insert(k.clone(), toml_to_json(v));
    }
    serde_json::Value::Object(m)
}

pub fn tval_to_toml(v: &TVal) -> toml::Value {
    match v {
        TVal::Str(s) => toml::Value::String(s.clone()),
        TVal::Int(i) => toml::Value::Integer(*i),
        TVal::Bool(b) => toml::Value::Boolean(*b),
        TVal::Float(f) => toml::Value::Float(*f),
        TVal::Arr(a) => toml::Value::Array(a.iter().map(tval_to_toml).collect()),
        TVal::Table(t) => toml::Value::Table(ttable_to_toml(t)),
    }
}

/// Author code often builds its metadata from a `HashMap`: insert the keys in this process's
/// hash-iteration order (at every nesting level). libcnb's tables are sorted maps, so what
/// reaches the disk must not depend on it.
pub fn reinsert_in_hash_order(t: &toml::Table) -> toml::Table {
    let staged: std::collections::HashMap<String, toml::Value> = t
        .iter()
        .map(|(k, v)| {
            let v = match v {
                toml::Value::Table(inner) => toml::Value::Table(reinsert_in_hash_order(inner)),
                toml::Value::Array(a) => toml::Value::Array(
                    a.iter()
                        .map(|x| match x {
                            toml::Value::Table(inner) => toml::Value::Table(reinsert_in_hash_order(inner)),
                            other => other.clone(),
                        })
                        .collect(),
                ),
                other => other.clone(),
            };
            (k.clone(), v)
        })
        .collect();
    let mut out = toml::Table::new();
    for (k, v) in staged {
        out.insert(k, v);
    }
    out
}

pub fn ttable_to_toml(t: &TTable) -> toml::Table {
    let mut out = toml::Table::new();
    for (k, v) in t {
        out.insert(k.clone(), tval_to_toml(v));
    }
    reinsert_in_hash_order(&out)
}

const STRINGS: [&str; 12] = [
    "",
    "plain",
    "with space",
    "quote\"inside",
    "back\\slash",
    "line\nbreak",
    "tab\tchar",
    "ünï-çødé ✓",
    "# not a comment",
    "a = b",
    "ctrl\u{1}\u{7f}",
    "'single'",
];
const KEYS: [&str; 10] = ["k", "version", "a b", "ключ", "x.y", "", "UPPER", "with\"quote", "n1", "deep"];

pub fn gen_val(r: &mut Rng, depth: u32) -> TVal {
    match r.below(if depth >= 3 { 4 } else { 6 }) {
        0 => TVal::Str((*r.pick(&STRINGS)).to_string()),
        1 => TVal::Int(*r.pick(&[0, 1, -1, 42, i64::MAX, i64::MIN, 1_000_000])),
        2 => TVal::Bool(r.bool()),
        3 => TVal::Float(*r.pick(&[0.5, -1.5, 3.25, 1024.0, -0.125])),
        4 => TVal::Arr((0..r.usize(4)).map(|_| gen_val(r, depth + 1)).collect()),
        _ => TVal::Table(gen_table(r, depth + 1)),
    }
}

pub fn gen_table(r: &mut Rng, depth: u32) -> TTable {
    let n = r.usize(4);
    let mut t: TTable = Vec::new();
    for _ in 0..n {
        let k = (*r.pick(&KEYS)).to_string();
        if t.iter().any(|(kk, _)| *kk == k) {
            continue;
        }
        t.push((k, gen_val(r, depth)));
    }
    t
}
