//! Phase-output half of C12 (filled in with the E2 engine).
use std::collections::{BTreeMap, BTreeSet};

#[derive(Default)]
pub struct PhaseFaults {
    pub lines: Vec<String>,
    pub cells: BTreeSet<String>,
    pub executions: u64,
    pub samples: Vec<serde_json::Value>,
    pub fired: u64,
    pub fired_by_call: BTreeMap<String, u64>,
    pub outcome_err: u64,
    pub outcome_ok_same: u64,
    pub scenarios: u64,
    pub violations: usize,
}

pub fn run_phase_faults(_tier: &str) -> PhaseFaults {
    PhaseFaults::default()
}
