//! Phase-output half of C12: every fault position of the file-system calls a real detect/build
//! process makes beneath its world, × errno ∈ {EIO, EACCES, ENOSPC, ENOTDIR}. The phase must exit
//! non-zero or leave exactly the outputs of the fault-free run.

use super::c05::{self, DescKind, InputKind, Scenario};
use super::common::{self, E2Summary, arg_after};
use super::script::{BuildKind, DetectKind};
use crate::e1::faults::ERRNOS;
use crate::pool::{self, PoolError};
use crate::rng::{Rng, run_seed};
use crate::snap::{self, Snap};
use serde::{Deserialize, Serialize};
use serde_json::json;
use std::collections::{BTreeMap, BTreeSet};
use std::path::Path;

#[derive(Default)]
pub struct PhaseFaults {
    pub lines: Vec<String>,
    pub cells: BTreeSet<String>,
    pub executions: u64,
    pub samples: Vec<serde_json::Value>,
    pub fired: u64,
    pub fired_by_call: BTreeMap<String, u64>,
    pub outcome_err: u64,
    pub outcome_ok_same: u64,
    pub scenarios: u64,
    pub violations: usize,
}

#[derive(Clone, Debug, Serialize, Deserialize)]
pub struct PhaseFaultReplay {
    pub engine: String,
    pub property: String,
    pub seed: u64,
    pub index: u64,
    pub scenario: Scenario,
    pub k: i64,
    pub errno: i32,
    pub faulted_call: String,
    pub signature: String,
    pub detail: Vec<String>,
}

fn gen_scenario(seed: u64) -> Scenario {
    // a well-formed invocation whose phase succeeds and writes outputs
    let mut s = c05::generate(seed);
    let mut r = Rng::sub(seed, "c12-phase");
    s.desc = DescKind::Supported;
    s.missing_env.clear();
    s.plan_in = InputKind::Valid;
    if s.store_in == InputKind::Malformed {
        s.store_in = InputKind::Valid;
    }
    s.arg0 = if s.build_phase { "build".into() } else { "detect".into() };
    s.nargs = if s.build_phase { 3 } else { 2 };
    s.platform_present = true;
    s.build.kind = BuildKind::Ok;
    s.preexisting.retain(|(_, d)| d != c05::PREEXISTING_DIR);
    if let Some(l) = s.build.launch.as_mut() {
        for p in &mut l.processes {
            if p.workdir.as_deref() == Some(super::script::WORKDIR_NOT_UTF8) {
                p.workdir = None;
            }
        }
    }
    if s.build.launch.is_none() && r.bool() {
        s.build.launch = Some(c05::gen_launch(&mut r));
    }
    if !s.build_phase && !matches!(s.detect, DetectKind::PassPlan(_)) {
        s.detect = DetectKind::PassPlan(c05::gen_plan(&mut r));
    }
    s
}

fn read_stats(path: &Path) -> (i64, bool, String) {
    let text = std::fs::read_to_string(path).unwrap_or_default();
    let get = |k: &str| {
        text.lines()
            .find_map(|l| l.strip_prefix(&format!("{k}=")))
            .map(str::to_string)
            .unwrap_or_default()
    };
    (get("matched").parse().unwrap_or(0), get("fired") == "1", get("fired_call"))
}

fn observable(s: &Snap) -> Snap {
    // the world the lifecycle looks at afterwards
    Snap {
        nodes: s.nodes.iter().map(|(k, v)| (k.clone(), v.clone())).collect(),
    }
}

struct One {
    status: i32,
    tree: Snap,
    n: i64,
    fired: bool,
    call: String,
    on_error: usize,
    reached_callback: bool,
}

fn run_one(s: &Scenario, root: &Path, side: &Path, mode: &str) -> Result<One, String> {
    let stats = side.join("stats.txt");
    let _ = std::fs::remove_file(&stats);
    let prog = if s.build_phase { "build" } else { "detect" };
    let plan = format!(
        "prog={prog};prefix={};{mode};rdseed=12345;hashkey=777;stats={}",
        root.display(),
        stats.display()
    );
    let x = c05::execute_with(s, root, Some(plan), Some(&side.join("markers")))?;
    let (n, fired, call) = read_stats(&stats);
    Ok(One {
        status: x.result.status(),
        tree: observable(&x.after),
        n,
        fired,
        call,
        on_error: x.result.count("on_error"),
        reached_callback: x.result.count("detect") + x.result.count("build") > 0,
    })
}

#[derive(Default, Serialize, Deserialize)]
struct WorkerOut {
    sum: E2Summary,
    executions: u64,
    fired: u64,
    fired_by_call: BTreeMap<String, u64>,
    outcome_err: u64,
    outcome_ok_same: u64,
    violations: Vec<PhaseFaultReplay>,
}

/// `c05_mode`: judge the error protocol instead of the outputs: whatever single call fails, the
/// phase never exits 100 (its detect passes), the error handler runs at most once, and once
/// detect/build code has been reached an error exit means the handler ran exactly once.
fn enumerate(
    s: &Scenario,
    root: &Path,
    side: &Path,
    out: &mut WorkerOut,
    only: Option<(i64, i32)>,
    c05_mode: bool,
) -> Result<Option<(i64, i32, String, Vec<String>)>, String> {
    let ok = run_one(s, root, side, "mode=count")?;
    out.executions += 1;
    if ok.status != 0 {
        return Err(format!("fault-free phase run exits {}", ok.status));
    }
    for k in 1..=ok.n {
        for (errno, name) in ERRNOS {
            if let Some((ok_k, ok_e)) = only {
                if ok_k != k || ok_e != errno {
                    continue;
                }
            }
            let f = run_one(s, root, side, &format!("mode=error;k={k};errno={errno}"))?;
            out.executions += 1;
            if !f.fired {
                return Err(format!("fault {k}/{} did not fire in the phase process", ok.n));
            }
            out.fired += 1;
            *out.fired_by_call.entry(f.call.clone()).or_insert(0) += 1;
            out.sum.cells.insert(format!(
                "phase-{}|{}|{name}",
                if s.build_phase { "build" } else { "detect" },
                f.call
            ));
            if c05_mode {
                let mut detail = Vec::new();
                let phase = if s.build_phase { "build" } else { "detect" };
                if f.status == 100 {
                    detail.push(format!("{phase} exited 100 (\"detection failed\") because its file-system call #{k} of {} ({}) failed with {name}", ok.n, f.call));
                }
                if f.on_error > 1 {
                    detail.push(format!("the error handler ran {} times after file-system call #{k} of {} ({}) failed with {name}", f.on_error, ok.n, f.call));
                }
                if f.status != 0 && f.reached_callback && f.on_error != 1 {
                    detail.push(format!("{phase} code ran and the phase exited {} after file-system call #{k} of {} ({}) failed with {name}, but the error handler ran {} times (expected once)", f.status, ok.n, f.call, f.on_error));
                }
                if f.status == 0 && f.on_error != 0 {
                    detail.push(format!("{phase} exited 0 although the error handler ran (file-system call #{k} of {} ({}) failed with {name})", ok.n, f.call));
                }
                if f.status != 0 {
                    out.outcome_err += 1;
                } else {
                    out.outcome_ok_same += 1;
                }
                if !detail.is_empty() {
                    return Ok(Some((k, errno, f.call, detail)));
                }
                continue;
            }
            if f.status != 0 {
                out.outcome_err += 1;
            } else if f.tree == ok.tree {
                out.outcome_ok_same += 1;
            } else {
                let mut detail = vec![format!(
                    "{} phase exited 0 although its file-system call #{k} of {} ({}) failed with {name}; outputs differ from the fault-free run:",
                    if s.build_phase { "build" } else { "detect" },
                    ok.n,
                    f.call
                )];
                detail.extend(snap::diff(&ok.tree, &f.tree, &|_, _, _| None, &[]).into_iter().take(8));
                return Ok(Some((k, errno, f.call, detail)));
            }
        }
    }
    Ok(None)
}

pub fn worker(args: &[String]) -> i32 {
    let scratch = common::worker_scratch(&format!("c12p-{}", arg_after(args, "--id").unwrap_or_else(|| "x".into())));
    let root = scratch.join("w");
    let side = scratch.join("side");
    let _ = std::fs::create_dir_all(&side);
    let mut out = WorkerOut::default();
    if let Some(file) = arg_after(args, "--replay") {
        let text = std::fs::read_to_string(&file).unwrap_or_else(|e| common::harness_fail(&e.to_string()));
        let rep: PhaseFaultReplay = serde_json::from_str(&text).unwrap_or_else(|e| common::harness_fail(&e.to_string()));
        let r = enumerate(&rep.scenario, &root, &side, &mut out, Some((rep.k, rep.errno)), rep.property == "C05");
        let reproduced = matches!(&r, Ok(Some((k, e, c, _))) if *k == rep.k && *e == rep.errno && *c == rep.faulted_call);
        println!("RESULT {}", json!({"reproduced": reproduced, "detail": r.ok().flatten().map(|x| x.3)}));
        let _ = snap::wipe(&scratch);
        let _ = std::fs::remove_dir(&scratch);
        return 0;
    }
    let from: u64 = arg_after(args, "--from").and_then(|s| s.parse().ok()).unwrap_or(0);
    let to: u64 = arg_after(args, "--to").and_then(|s| s.parse().ok()).unwrap_or(0);
    let c05_mode = args.iter().any(|a| a == "--c05");
    for i in from..to {
        let seed = run_seed(crate::global_seed(), if c05_mode { "e2-c05-faults" } else { "e2-c12" }, i);
        let s = gen_scenario(seed);
        let before = out.executions;
        match enumerate(&s, &root, &side, &mut out, None, c05_mode) {
            Err(e) => out.sum.harness_errors.push(format!("phase scenario {i}: {e}")),
            Ok(v) => {
                out.sum.runs += 1;
                if out.sum.samples.len() < 1 {
                    out.sum.samples.push(json!({"index": i, "seed": seed,
                        "phase": if s.build_phase {"build"} else {"detect"},
                        "outputs": {"launch": s.build.launch.is_some(), "store": s.build.store.is_some(),
                                    "build_sboms": s.build.build_sboms.len(), "launch_sboms": s.build.launch_sboms.len()},
                        "executions": out.executions - before}));
                }
                if let Some((k, errno, call, detail)) = v {
                    out.violations.push(PhaseFaultReplay {
                        engine: "e2-c12".into(),
                        property: if c05_mode { "C05".into() } else { "C12".into() },
                        seed,
                        index: i,
                        scenario: s,
                        k,
                        errno,
                        signature: if c05_mode { format!("C05:error-protocol-under-fault:{call}") } else { format!("I-fault:phase:{call}") },
                        faulted_call: call,
                        detail,
                    });
                }
            }
        }
    }
    let _ = snap::wipe(&scratch);
    let _ = std::fs::remove_dir(&scratch);
    println!("RESULT {}", serde_json::to_string(&out).unwrap_or_default());
    0
}

pub fn run_phase_faults(tier: &str) -> PhaseFaults {
    run_phase_faults_for(tier, "C12")
}

/// `property` "C12": outputs under faults; "C05": the error protocol under faults.
pub fn run_phase_faults_for(tier: &str, property: &str) -> PhaseFaults {
    let scenarios: u64 = std::env::var("VERIF_PHASE_RUNS")
        .ok()
        .and_then(|s| s.parse().ok())
        .unwrap_or(if tier == "thorough" { if property == "C05" { 800 } else { 1_600 } } else { 48 });
    let mut argvs = Vec::new();
    for (i, (from, to)) in pool::ranges(scenarios, pool::workers()).into_iter().enumerate() {
        argvs.push(
            ["worker", "e2-c12", "--from", &from.to_string(), "--to", &to.to_string(), "--id", &format!("{property}-{i}")]
                .iter()
                .map(|s| (*s).to_string())
                .chain((property == "C05").then(|| "--c05".to_string()))
                .collect(),
        );
    }
    let results: Vec<WorkerOut> = match pool::run_workers(argvs, false) {
        Ok(r) => r,
        Err(PoolError::Harness(e)) => common::harness_fail(&e),
    };
    let mut pf = PhaseFaults::default();
    let known = crate::known::Known::load();
    let mut seen: Vec<String> = Vec::new();
    for r in results {
        if let Some(e) = r.sum.harness_errors.first() {
            common::harness_fail(e);
        }
        pf.scenarios += r.sum.runs;
        pf.executions += r.executions;
        pf.fired += r.fired;
        for (k, v) in r.fired_by_call {
            *pf.fired_by_call.entry(k).or_insert(0) += v;
        }
        pf.outcome_err += r.outcome_err;
        pf.outcome_ok_same += r.outcome_ok_same;
        pf.cells.extend(r.sum.cells);
        if pf.samples.is_empty() {
            pf.samples.extend(r.sum.samples);
        }
        for v in r.violations {
            if seen.contains(&v.signature) {
                continue;
            }
            seen.push(v.signature.clone());
            if let Some(f) = known.matches(property, &v.signature) {
                pf.lines.push(format!("KNOWN-FINDING: property={property} {}", f.description));
                continue;
            }
            let dir = pool::out_root().join("replays");
            let _ = std::fs::create_dir_all(&dir);
            let text = serde_json::to_string_pretty(&v).unwrap_or_default();
            let path = dir.join(format!("{property}-{:08x}.json", crate::rng::hash_str(&text) & 0xffff_ffff));
            if let Err(e) = std::fs::write(&path, text + "\n") {
                common::harness_fail(&format!("cannot write replay: {e}"));
            }
            pf.lines.push(format!("violation: signature={} k={} errno={}", v.signature, v.k, v.errno));
            for d in &v.detail {
                pf.lines.push(format!("    {d}"));
            }
            pf.lines.push(format!("VIOLATION property={property} replay={}", path.display()));
            pf.violations += 1;
        }
    }
    pf
}
