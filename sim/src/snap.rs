//! File-tree snapshots: the observable durable state, and the data structure the reference
//! models transform. mtimes and inode numbers are never recorded.

use std::collections::BTreeMap;
use std::ffi::OsStr;
use std::fs;
use std::io;
use std::os::unix::ffi::OsStrExt;
use std::os::unix::fs::PermissionsExt;
use std::path::{Path, PathBuf};

#[derive(Clone, Debug, PartialEq, Eq)]
pub enum Node {
    File { data: Vec<u8>, mode: u32 },
    Dir { mode: u32 },
    Symlink { target: Vec<u8> },
}

impl Node {
    pub fn file(data: impl Into<Vec<u8>>) -> Node {
        Node::File {
            data: data.into(),
            mode: 0o644,
        }
    }
    pub fn dir() -> Node {
        Node::Dir { mode: 0o755 }
    }
    pub fn is_dir(&self) -> bool {
        matches!(self, Node::Dir { .. })
    }
    pub fn is_file(&self) -> bool {
        matches!(self, Node::File { .. })
    }
    pub fn describe(&self) -> String {
        match self {
            Node::File { data, mode } => {
                format!("file({} bytes, {:o}, {})", data.len(), mode, show_bytes(data, 48))
            }
            Node::Dir { mode } => format!("dir({mode:o})"),
            Node::Symlink { target } => format!("symlink(-> {})", show_bytes(target, 80)),
        }
    }
}

pub fn show_bytes(b: &[u8], max: usize) -> String {
    let mut s = String::new();
    for &c in b.iter().take(max) {
        if (0x20..0x7f).contains(&c) && c != b'\\' {
            s.push(c as char);
        } else {
            s.push_str(&format!("\\x{c:02x}"));
        }
    }
    if b.len() > max {
        s.push('…');
    }
    s
}

/// Relative path (bytes, '/'-separated, no leading slash) → node. The root itself is not an entry.
#[derive(Clone, Debug, PartialEq, Eq, Default)]
pub struct Snap {
    pub nodes: BTreeMap<Vec<u8>, Node>,
}

pub fn join(a: &[u8], b: &[u8]) -> Vec<u8> {
    if a.is_empty() {
        return b.to_vec();
    }
    let mut v = a.to_vec();
    v.push(b'/');
    v.extend_from_slice(b);
    v
}

pub fn p(s: &str) -> Vec<u8> {
    s.as_bytes().to_vec()
}

impl Snap {
    pub fn take(root: &Path) -> io::Result<Snap> {
        let mut snap = Snap::default();
        walk(root, &mut Vec::new(), &mut snap)?;
        Ok(snap)
    }

    pub fn get(&self, path: &[u8]) -> Option<&Node> {
        self.nodes.get(path)
    }

    pub fn contains(&self, path: &[u8]) -> bool {
        self.nodes.contains_key(path)
    }

    pub fn insert(&mut self, path: Vec<u8>, node: Node) {
        self.nodes.insert(path, node);
    }

    /// Remove `path` and everything beneath it.
    pub fn remove_tree(&mut self, path: &[u8]) {
        let mut prefix = path.to_vec();
        prefix.push(b'/');
        self.nodes.retain(|k, _| k != path && !k.starts_with(&prefix));
    }

    /// Keys strictly beneath `path`.
    pub fn beneath<'a>(&'a self, path: &[u8]) -> impl Iterator<Item = (&'a Vec<u8>, &'a Node)> + 'a {
        let mut prefix = path.to_vec();
        prefix.push(b'/');
        self.nodes.iter().filter(move |(k, _)| k.starts_with(&prefix))
    }

    /// Direct children names of directory `path`.
    pub fn children(&self, path: &[u8]) -> Vec<Vec<u8>> {
        let mut prefix = path.to_vec();
        if !path.is_empty() {
            prefix.push(b'/');
        }
        self.nodes
            .keys()
            .filter(|k| k.starts_with(&prefix) && k.len() > prefix.len())
            .filter(|k| !k[prefix.len()..].contains(&b'/'))
            .map(|k| k[prefix.len()..].to_vec())
            .collect()
    }

    /// Sub-snapshot of everything beneath `path`, re-rooted.
    pub fn subtree(&self, path: &[u8]) -> Snap {
        let mut prefix = path.to_vec();
        prefix.push(b'/');
        Snap {
            nodes: self
                .nodes
                .iter()
                .filter(|(k, _)| k.starts_with(&prefix))
                .map(|(k, v)| (k[prefix.len()..].to_vec(), v.clone()))
                .collect(),
        }
    }

    /// Graft `sub` beneath `path` (which must already be a directory entry or is created).
    pub fn graft(&mut self, path: &[u8], sub: &Snap) {
        for (k, v) in &sub.nodes {
            self.nodes.insert(join(path, k), v.clone());
        }
    }

    /// Resolve `path` following symlinks (also in intermediate components), as the kernel would,
    /// within this snapshot rooted at absolute path `root_abs`. Returns the final node's path.
    pub fn resolve(&self, path: &[u8], root_abs: &[u8]) -> Option<Vec<u8>> {
        let mut todo: Vec<Vec<u8>> = path
            .split(|c| *c == b'/')
            .filter(|c| !c.is_empty())
            .map(<[u8]>::to_vec)
            .rev()
            .collect();
        let mut cur: Vec<Vec<u8>> = Vec::new();
        let mut hops = 0;
        while let Some(comp) = todo.pop() {
            if comp == b"." {
                continue;
            }
            if comp == b".." {
                cur.pop();
                continue;
            }
            cur.push(comp);
            let key = cur.join(&b'/');
            match self.nodes.get(&key) {
                None => return None,
                Some(Node::Symlink { target }) => {
                    hops += 1;
                    if hops > 40 {
                        return None;
                    }
                    cur.pop();
                    let rel: Vec<u8> = if target.first() == Some(&b'/') {
                        // absolute: must lie inside the snapshot root
                        if target.as_slice() == root_abs {
                            cur.clear();
                            Vec::new()
                        } else if target.starts_with(root_abs)
                            && target.get(root_abs.len()) == Some(&b'/')
                        {
                            cur.clear();
                            target[root_abs.len() + 1..].to_vec()
                        } else {
                            return None;
                        }
                    } else {
                        target.clone()
                    };
                    for c in rel.split(|c| *c == b'/').filter(|c| !c.is_empty()).rev() {
                        todo.push(c.to_vec());
                    }
                }
                Some(Node::File { .. }) => {
                    if !todo.is_empty() {
                        return None;
                    }
                }
                Some(Node::Dir { .. }) => {}
            }
        }
        Some(cur.join(&b'/'))
    }

    pub fn resolves_to_dir(&self, path: &[u8], root_abs: &[u8]) -> bool {
        match self.resolve(path, root_abs) {
            Some(k) if k.is_empty() => true,
            Some(k) => self.nodes.get(&k).is_some_and(Node::is_dir),
            None => false,
        }
    }

    pub fn render(&self, max: usize) -> Vec<String> {
        self.nodes
            .iter()
            .take(max)
            .map(|(k, v)| format!("{}: {}", show_bytes(k, 120), v.describe()))
            .collect()
    }
}

fn walk(dir: &Path, rel: &mut Vec<u8>, snap: &mut Snap) -> io::Result<()> {
    // The harness runs as uid 0, so unreadable modes do not stop it.
    let mut entries: Vec<_> = fs::read_dir(dir)?.collect::<Result<_, _>>()?;
    entries.sort_by_key(fs::DirEntry::file_name);
    for e in entries {
        let name = e.file_name();
        let key = join(rel, name.as_bytes());
        let meta = fs::symlink_metadata(e.path())?;
        let ft = meta.file_type();
        if ft.is_symlink() {
            let target = fs::read_link(e.path())?;
            snap.nodes.insert(
                key,
                Node::Symlink {
                    target: target.as_os_str().as_bytes().to_vec(),
                },
            );
        } else if ft.is_dir() {
            snap.nodes.insert(
                key.clone(),
                Node::Dir {
                    mode: meta.permissions().mode() & 0o7777,
                },
            );
            let mut sub = key;
            walk(&e.path(), &mut sub, snap)?;
        } else {
            snap.nodes.insert(
                key,
                Node::File {
                    data: fs::read(e.path())?,
                    mode: meta.permissions().mode() & 0o7777,
                },
            );
        }
    }
    Ok(())
}

pub fn to_path(root: &Path, rel: &[u8]) -> PathBuf {
    root.join(OsStr::from_bytes(rel))
}

/// Materialise a snapshot beneath `root` (which must exist and be empty of these entries).
pub fn materialise(root: &Path, snap: &Snap) -> io::Result<()> {
    // parents first (BTreeMap order guarantees a directory precedes its children)
    let mut dir_modes: Vec<(PathBuf, u32)> = Vec::new();
    for (k, v) in &snap.nodes {
        let path = to_path(root, k);
        match v {
            Node::Dir { mode } => {
                fs::create_dir(&path)?;
                dir_modes.push((path, *mode));
            }
            Node::File { data, mode } => {
                fs::write(&path, data)?;
                fs::set_permissions(&path, fs::Permissions::from_mode(*mode))?;
            }
            Node::Symlink { target } => {
                std::os::unix::fs::symlink(OsStr::from_bytes(target), &path)?;
            }
        }
    }
    for (path, mode) in dir_modes.into_iter().rev() {
        fs::set_permissions(&path, fs::Permissions::from_mode(mode))?;
    }
    Ok(())
}

/// Remove everything beneath `root` regardless of modes (harness-side cleanup, uid 0).
pub fn wipe(root: &Path) -> io::Result<()> {
    if !root.exists() {
        return Ok(());
    }
    fn fix(dir: &Path) {
        let _ = fs::set_permissions(dir, fs::Permissions::from_mode(0o755));
        if let Ok(rd) = fs::read_dir(dir) {
            for e in rd.flatten() {
                if e.file_type().is_ok_and(|t| t.is_dir()) {
                    fix(&e.path());
                }
            }
        }
    }
    fix(root);
    for e in fs::read_dir(root)? {
        let e = e?;
        if e.file_type()?.is_dir() {
            fs::remove_dir_all(e.path())?;
        } else {
            fs::remove_file(e.path())?;
        }
    }
    Ok(())
}

/// Differences between an expected and an actual snapshot. `semantic` is consulted for file
/// pairs whose bytes differ; when it returns Some(true) the pair counts as equal.
pub fn diff(
    expected: &Snap,
    actual: &Snap,
    semantic: &dyn Fn(&[u8], &[u8], &[u8]) -> Option<bool>,
    ignore_modes_beneath: &[Vec<u8>],
) -> Vec<String> {
    let mut out = Vec::new();
    let ignore_mode = |k: &[u8]| {
        ignore_modes_beneath.iter().any(|pfx| {
            k == pfx.as_slice()
                || (k.starts_with(pfx) && k.get(pfx.len()) == Some(&b'/'))
                || pfx.is_empty()
        })
    };
    for (k, e) in &expected.nodes {
        match actual.nodes.get(k) {
            None => out.push(format!("missing {}: expected {}", show_bytes(k, 120), e.describe())),
            Some(a) if a == e => {}
            Some(a) => {
                let same = match (e, a) {
                    (Node::File { data: d1, mode: m1 }, Node::File { data: d2, mode: m2 }) => {
                        let modes_ok = m1 == m2 || ignore_mode(k);
                        let data_ok = d1 == d2 || semantic(k, d1, d2) == Some(true);
                        modes_ok && data_ok
                    }
                    (Node::Dir { mode: m1 }, Node::Dir { mode: m2 }) => m1 == m2 || ignore_mode(k),
                    _ => false,
                };
                if !same {
                    out.push(format!(
                        "differs {}: expected {} actual {}",
                        show_bytes(k, 120),
                        e.describe(),
                        a.describe()
                    ));
                }
            }
        }
    }
    for (k, a) in &actual.nodes {
        if !expected.nodes.contains_key(k) {
            out.push(format!("unexpected {}: {}", show_bytes(k, 120), a.describe()));
        }
    }
    out
}
