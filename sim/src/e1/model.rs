//! Executable reference model of the layers directory (DESIGN appendix B). It never reads the
//! real file system: every operation is a transformer on the model's own snapshot.

use super::ops::*;
use crate::envmodel::EnvModel;
use crate::snap::{Node, Snap, join, p};
use std::collections::BTreeSet;

pub type Types = (bool, bool, bool); // build, launch, cache

#[derive(Clone, Debug, PartialEq)]
pub enum Reported {
    Restored { cause: Option<u32> },
    EmptyNew,
    EmptyInvalid { cause: Option<u32> },
    EmptyRestored { cause: Option<u32> },
}

#[derive(Clone, Debug, PartialEq)]
pub enum ExpResult {
    /// harness-side operation, no libcnb call
    NoCall,
    StructOk(Reported),
    TraitOk {
        types: Types,
        meta: Option<toml::Table>,
        env: Box<EnvModel>,
    },
    EnvRead(Box<EnvModel>),
    UnitOk,
    ErrBuildpack(u32),
    /// some non-buildpack error (e.g. missing exec.d source)
    ErrOther,
}

#[derive(Clone, Copy, Debug, PartialEq, Eq, Hash, serde::Serialize, serde::Deserialize)]
pub enum CbKind {
    Restored,
    Invalid,
    Strategy,
    Migration,
    Create,
    Update,
}

#[derive(Clone, Debug, PartialEq)]
pub struct ExpCallback {
    pub kind: CbKind,
    pub md: Option<toml::Table>,
    /// layer environment the callback must see in its LayerData (trait API)
    pub env: Option<EnvModel>,
}

#[derive(Clone, Debug)]
pub struct Expectation {
    pub result: ExpResult,
    pub callbacks: Vec<ExpCallback>,
    /// layer whose own state the statements leave open after this step (callback error etc.)
    pub unconstrained: Option<usize>,
    /// coverage: class of the layer before the request, decision path, outcome
    pub pre_class: String,
    pub path: String,
}

impl Expectation {
    fn simple(result: ExpResult) -> Expectation {
        Expectation {
            result,
            callbacks: Vec::new(),
            unconstrained: None,
            pre_class: String::new(),
            path: String::new(),
        }
    }
}

#[derive(Clone, Debug)]
pub struct Model {
    pub snap: Snap,
    pub root_abs: Vec<u8>,
    pub layers: Vec<String>,
    /// layers for which the current build holds a layer reference
    pub live: BTreeSet<usize>,
    /// layers for which the current build holds a struct-API `LayerRef`
    pub refs: BTreeSet<usize>,
    pub builds: u32,
}

pub const RESERVED_TOP: [&str; 4] = ["env", "env.build", "env.launch", "exec.d"];

pub fn canary_world() -> Snap {
    let mut s = Snap::default();
    let d = |m: u32| Node::Dir { mode: m };
    let f = |data: &str, m: u32| Node::File {
        data: data.as_bytes().to_vec(),
        mode: m,
    };
    s.insert(p("layers"), d(0o755));
    s.insert(p("outside"), d(0o755));
    s.insert(p("outside/canary"), d(0o755));
    s.insert(p("outside/canary/file_a"), f("canary-a", 0o644));
    s.insert(p("outside/canary/file_ro"), f("canary-ro", 0o444));
    s.insert(p("outside/canary/dir_ro"), d(0o555));
    s.insert(p("outside/canary/dir_ro/inner"), f("inner", 0o600));
    s.insert(p("outside/canary/dir_nx"), d(0o666));
    s.insert(p("outside/canary/dir_nx/f"), f("nx", 0o644));
    s.insert(p("outside/canary/dir_0"), d(0o000));
    s.insert(p("outside/canary/dir_0/hidden"), f("hidden", 0o400));
    s.insert(p("outside/canary/dir_w"), d(0o755));
    s.insert(p("outside/canary/dir_w/sub"), d(0o750));
    s.insert(p("outside/canary/dir_w/sub/deep"), f("deep", 0o640));
    s.insert(
        p("outside/canary/link_to_file"),
        Node::Symlink { target: p("file_a") },
    );
    s.insert(p("outside/canary/layer.toml"), f("[metadata]\nversion = \"1\"\n", 0o644));
    s.insert(p("outside/target_dir"), d(0o700));
    s.insert(p("outside/target_dir/keep.txt"), f("keep me", 0o600));
    s.insert(p("outside/target_dir/sub"), d(0o500));
    s.insert(p("outside/target_dir/sub/x"), f("x", 0o400));
    s.insert(p("execd_src"), d(0o755));
    // p0 and p1 have the same length on purpose (a size-based "unchanged?" shortcut must not hide a change)
    s.insert(p("execd_src/p0"), f("#!/bin/sh\necho p0-aa\n", 0o755));
    // (same mode as well: "looks unchanged" shortcuts compare that too)
    s.insert(p("execd_src/p1"), f("#!/bin/sh\necho p1-bb\n", 0o755));
    s.insert(p("execd_src/p2"), f("\x7fELF-not-really\x00\x01", 0o555));
    s.insert(p("execd_src/p3"), f("", 0o644));
    s
}

impl Model {
    pub fn new(root_abs: &[u8], history: &History) -> Model {
        let mut snap = canary_world();
        for f in &history.foreign {
            snap.insert(
                join(b"layers", &f.path),
                Node::File {
                    data: f.data.clone(),
                    mode: f.mode,
                },
            );
        }
        Model {
            snap,
            root_abs: root_abs.to_vec(),
            layers: history.layers.clone(),
            live: BTreeSet::new(),
            refs: BTreeSet::new(),
            builds: 1,
        }
    }

    pub fn ldir(&self, i: usize) -> Vec<u8> {
        join(b"layers", self.layers[i].as_bytes())
    }
    pub fn ltoml(&self, i: usize) -> Vec<u8> {
        join(b"layers", format!("{}.toml", self.layers[i]).as_bytes())
    }
    pub fn lsbom(&self, i: usize, fmt: usize) -> Vec<u8> {
        join(
            b"layers",
            format!("{}.sbom.{}", self.layers[i], SBOM_EXT[fmt]).as_bytes(),
        )
    }
    pub fn abs(&self, rel: &[u8]) -> Vec<u8> {
        let mut v = self.root_abs.clone();
        v.push(b'/');
        v.extend_from_slice(rel);
        v
    }

    fn dir_exists(&self, i: usize) -> bool {
        self.snap.resolve(&self.ldir(i), &self.root_abs).is_some()
    }
    pub fn dir_is_real_dir(&self, i: usize) -> bool {
        self.snap.get(&self.ldir(i)).is_some_and(Node::is_dir)
    }
    pub fn top_is_symlink(&self, i: usize) -> bool {
        matches!(self.snap.get(&self.ldir(i)), Some(Node::Symlink { .. }))
    }

    /// where reads and writes of <name>.toml end up (the file itself, or what a link there
    /// resolves to)
    fn toml_node_path(&self, i: usize) -> Vec<u8> {
        let t = self.ltoml(i);
        match self.snap.get(&t) {
            Some(Node::Symlink { .. }) => self.snap.resolve(&t, &self.root_abs).unwrap_or(t),
            _ => t,
        }
    }

    pub fn read_toml(&self, i: usize) -> Option<(Option<Types>, Option<toml::Table>)> {
        let Some(Node::File { data, .. }) = self.snap.get(&self.toml_node_path(i)) else {
            return None;
        };
        Some(parse_layer_toml(data).unwrap_or((None, None)))
    }

    fn write_toml(&mut self, i: usize, types: Option<Types>, md: Option<toml::Table>) {
        let data = emit_layer_toml(types, md.as_ref());
        let path = self.toml_node_path(i);
        let mode = match self.snap.get(&path) {
            Some(Node::File { mode, .. }) => *mode,
            _ => 0o644,
        };
        self.snap.insert(path, Node::File { data, mode });
    }

    /// read normalisation shared by both APIs
    fn norm(&mut self, i: usize) -> Option<(Option<Types>, Option<toml::Table>)> {
        let dir = self.dir_exists(i);
        let toml = self.snap.contains(&self.ltoml(i));
        if !dir {
            if toml {
                let t = self.ltoml(i);
                self.snap.remove_tree(&t);
            }
            return None;
        }
        if !toml {
            self.write_toml(i, None, None);
        }
        self.read_toml(i)
    }

    fn delete(&mut self, i: usize) {
        let d = self.ldir(i);
        self.snap.remove_tree(&d);
        let t = self.ltoml(i);
        self.snap.remove_tree(&t);
        for f in 0..3 {
            let s = self.lsbom(i, f);
            self.snap.remove_tree(&s);
        }
    }

    fn create_empty(&mut self, i: usize, types: Types) {
        self.snap.insert(self.ldir(i), Node::dir());
        self.write_toml(i, Some(types), None);
    }

    pub fn pre_class(&self, i: usize, kind: MetaKind) -> String {
        let dir = self.dir_exists(i);
        let toml = self.read_toml(i);
        let shape = match (dir, &toml) {
            (false, None) => "absent",
            (false, Some(_)) => "toml-only",
            (true, None) => "dir-only",
            (true, Some((None, _))) => "dir+toml-notypes",
            (true, Some((Some(_), _))) => "dir+toml-types",
        };
        let md = match &toml {
            None => "md-none",
            Some((_, None)) => {
                if valid(kind, &None) {
                    "md-absent-valid"
                } else {
                    "md-absent-invalid"
                }
            }
            Some((_, md)) => {
                if valid(kind, md) {
                    "md-valid"
                } else {
                    "md-invalid"
                }
            }
        };
        let l = self.ldir(i);
        let has = |sub: &str| self.snap.contains(&join(&l, sub.as_bytes()));
        let has_sbom = (0..3).any(|f| self.snap.contains(&self.lsbom(i, f)));
        let has_proc = self
            .snap
            .children(&join(&l, b"env.launch"))
            .iter()
            .any(|c| self.snap.get(&join(&join(&l, b"env.launch"), c)).is_some_and(Node::is_dir));
        format!(
            "{shape}/{md}/env{}{}{}/execd{}/sbom{}/{}",
            u8::from(has("env")),
            u8::from(has("env.build")),
            u8::from(has("env.launch")),
            u8::from(has("exec.d")),
            u8::from(has_sbom),
            if self.top_is_symlink(i) {
                "toplink"
            } else if has_proc {
                "proc"
            } else {
                "plain"
            }
        )
    }

    /// every file in the layer's env directories is `NAME.<known behaviour>`
    fn env_is_writer_shaped(&self, i: usize) -> bool {
        if self.env_path_blocked(i) {
            return false;
        }
        let l = self.ldir(i);
        for d in ["env", "env.build", "env.launch"] {
            let dir = join(&l, d.as_bytes());
            for (k, n) in self.snap.beneath(&dir) {
                if matches!(n, Node::Symlink { .. }) {
                    return false;
                }
                if n.is_file() {
                    let name = k.rsplit(|c| *c == b'/').next().unwrap_or(k);
                    let ok = name
                        .iter()
                        .rposition(|c| *c == b'.')
                        .is_some_and(|i| i > 0 && crate::envmodel::Beh::from_suffix(&name[i + 1..]).is_some());
                    if !ok {
                        return false;
                    }
                }
            }
        }
        true
    }

    /// Is one of env, env.build, env.launch present but not a directory (a stray file)?
    fn env_path_blocked(&self, i: usize) -> bool {
        let l = self.ldir(i);
        ["env", "env.build", "env.launch"]
            .iter()
            .any(|d| self.snap.get(&join(&l, d.as_bytes())).is_some_and(|n| !n.is_dir()))
    }

    /// Does an env directory of the layer hold a symbolic link that leads nowhere (e.g. its
    /// target was removed by a write that then failed half-way)?
    fn env_has_dangling_link(&self, i: usize) -> bool {
        let l = self.ldir(i);
        let mut dirs = vec![join(&l, b"env"), join(&l, b"env.build"), join(&l, b"env.launch")];
        let launch = join(&l, b"env.launch");
        for c in self.snap.children(&launch) {
            let full = join(&launch, &c);
            if self.snap.resolves_to_dir(&full, &self.root_abs) {
                dirs.push(full);
            }
        }
        dirs.iter().any(|d| {
            self.snap.children(d).iter().any(|c| {
                let full = join(d, c);
                matches!(self.snap.get(&full), Some(Node::Symlink { .. }))
                    && self.snap.resolve(&full, &self.root_abs).is_none_or(|r| !self.snap.contains(&r))
            })
        })
    }

    fn env_of(&self, i: usize) -> EnvModel {
        EnvModel::read_layer(&self.snap, &self.ldir(i), &self.root_abs)
    }

    fn set_env_dirs(&mut self, i: usize, env: &EnvModel) {
        let l = self.ldir(i);
        for d in ["env", "env.build", "env.launch"] {
            self.snap.remove_tree(&join(&l, d.as_bytes()));
        }
        self.snap.graft(&l, &env.spec_files());
    }

    fn source(&self, idx: usize) -> Option<(Vec<u8>, u32)> {
        match self.snap.get(format!("execd_src/p{idx}").as_bytes()) {
            Some(Node::File { data, mode }) => Some((data.clone(), *mode)),
            _ => None,
        }
    }

    /// Returns false when a source is missing (call must fail).
    fn replace_execd(&mut self, i: usize, progs: &[ExecDSpec]) -> bool {
        let l = self.ldir(i);
        let e = join(&l, b"exec.d");
        if self.snap.get(&e).is_some_and(|n| !n.is_dir()) && !self.snap.resolves_to_dir(&e, &self.root_abs) {
            // a stray file (or dangling link) named exec.d is left alone; programs cannot be
            // written next to it
            return progs.is_empty();
        }
        self.snap.remove_tree(&e);
        if progs.is_empty() {
            return true;
        }
        self.snap.insert(e.clone(), Node::dir());
        let mut ok = true;
        // programs are collected into a map: for a repeated name the last one wins
        let mut last: std::collections::BTreeMap<&str, &ExecDSpec> = std::collections::BTreeMap::new();
        for pr in progs {
            last.insert(pr.name.as_str(), pr);
        }
        for pr in last.values() {
            match self.source(pr.source) {
                Some((data, mode)) => {
                    self.snap
                        .insert(join(&e, pr.name.as_bytes()), Node::File { data, mode });
                }
                None => ok = false,
            }
        }
        ok
    }

    fn replace_sboms(&mut self, i: usize, sboms: &[SbomSpec]) {
        for f in 0..3 {
            let s = self.lsbom(i, f);
            self.snap.remove_tree(&s);
        }
        for s in sboms {
            self.snap
                .insert(self.lsbom(i, s.format as usize), Node::file(s.data.clone()));
        }
    }

    fn put_file(&mut self, base: &[u8], f: &FileSpec) {
        let comps: Vec<&[u8]> = f.path.split(|c| *c == b'/').collect();
        let mut cur = base.to_vec();
        for c in &comps[..comps.len() - 1] {
            cur = join(&cur, c);
            self.snap.nodes.entry(cur.clone()).or_insert_with(Node::dir);
        }
        self.snap.insert(
            join(base, &f.path),
            Node::File {
                data: f.data.clone(),
                mode: f.mode,
            },
        );
    }

    /// Can `rel` (relative to directory `base`) be created as a new entry, or (for files)
    /// overwritten, without going through a non-directory?
    fn can_place(&self, base: &[u8], rel: &[u8], allow_overwrite_file: bool) -> bool {
        if rel.is_empty() || rel.first() == Some(&b'/') {
            return false;
        }
        let comps: Vec<&[u8]> = rel.split(|c| *c == b'/').collect();
        if comps.iter().any(|c| c.is_empty() || *c == b"." || *c == b"..") {
            return false;
        }
        if !self.snap.get(base).is_some_and(Node::is_dir) {
            return false;
        }
        let mut cur = base.to_vec();
        for c in &comps[..comps.len() - 1] {
            cur = join(&cur, c);
            match self.snap.get(&cur) {
                None | Some(Node::Dir { .. }) => {}
                _ => return false,
            }
        }
        match self.snap.get(&join(base, rel)) {
            None => true,
            Some(Node::File { .. }) => allow_overwrite_file,
            _ => false,
        }
    }

    fn files_ok(&self, base: &[u8], files: &[FileSpec], base_will_exist: bool) -> bool {
        // sequentially placeable (later files may go into directories made by earlier ones)
        let mut m = self.clone();
        if base_will_exist {
            m.snap.nodes.entry(base.to_vec()).or_insert_with(Node::dir);
        }
        for f in files {
            if !m.can_place(base, &f.path, true) {
                return false;
            }
            m.put_file(base, f);
        }
        true
    }

    /// Will a trait-API request on layer `i` take a path that deletes the layer first?
    fn handle_deletes(&self, i: usize, kind: MetaKind, strategy: Strategy, migration: &Migration) -> bool {
        match self.read_toml(i) {
            None => false,
            Some((_, md)) => {
                if valid(kind, &md) {
                    strategy == Strategy::Recreate
                } else {
                    matches!(migration, Migration::Recreate)
                }
            }
        }
    }

    /// Preconditions under which an operation is meaningful; a disabled operation is skipped
    /// (deterministically) rather than executed. Keeps minimised histories well-formed.
    pub fn enabled(&self, op: &Op) -> bool {
        let n = self.layers.len();
        if let Some(l) = op.layer() {
            if l >= n {
                return false;
            }
        }
        match op {
            Op::Cached { layer, restored, invalid, kind, .. } => {
                if self.top_is_symlink(*layer) {
                    // only the deleting paths are in scope for a symlinked layer path (C11)
                    if !self.dir_exists(*layer) {
                        return false;
                    }
                    let md = self.read_toml(*layer).and_then(|t| t.1);
                    let toml_exists = self.snap.contains(&self.ltoml(*layer));
                    let md = if toml_exists { md } else { None };
                    return if valid(*kind, &md) {
                        *restored == Restored::Delete
                    } else {
                        matches!(invalid, Invalid::Delete)
                    };
                }
                !self.snap.contains(&self.ldir(*layer)) || self.dir_is_real_dir(*layer)
            }
            Op::Uncached { layer, .. } => {
                if self.top_is_symlink(*layer) {
                    return self.dir_exists(*layer);
                }
                !self.snap.contains(&self.ldir(*layer)) || self.dir_is_real_dir(*layer)
            }
            Op::Handle { layer, kind, strategy, migration, result, .. } => {
                // Hand-placed files in env*/ (suffix-less, unknown suffix) belong to the environment
                // reader's side of C03; what a trait-API keep/migration does to them is not asserted.
                if !self.env_is_writer_shaped(*layer) {
                    return false;
                }
                if self.top_is_symlink(*layer) {
                    if !self.dir_exists(*layer) || !self.snap.contains(&self.ltoml(*layer)) {
                        return false;
                    }
                    if !self.handle_deletes(*layer, *kind, *strategy, migration) {
                        return false;
                    }
                } else if self.snap.contains(&self.ldir(*layer)) && !self.dir_is_real_dir(*layer) {
                    return false;
                }
                if result.meta.kind() != *kind {
                    return false;
                }
                if let Migration::Replace(m) = migration {
                    if m.kind() != *kind {
                        return false;
                    }
                }
                // files the callback writes must be placeable in the state it will see
                let mut m = self.clone();
                let will_delete = m.snap.contains(&m.ltoml(*layer))
                    && m.handle_deletes(*layer, *kind, *strategy, migration)
                    || !m.dir_exists(*layer);
                if will_delete {
                    m.delete(*layer);
                }
                m.files_ok(&self.ldir(*layer), &result.files, true)
            }
            Op::WriteMetadata { layer, .. }
            | Op::WriteEnv { layer, .. }
            | Op::ReadEnv { layer, .. }
            | Op::EnvCycle { layer, .. }
            | Op::WriteSboms { layer, .. }
            | Op::WriteExecD { layer, .. } => {
                self.refs.contains(layer)
                    && self.dir_is_real_dir(*layer)
                    && self.snap.contains(&self.ltoml(*layer))
            }
            Op::PlainFile { layer, file } => {
                self.live.contains(layer)
                    && self.dir_is_real_dir(*layer)
                    && self.can_place(&self.ldir(*layer), &file.path, true)
            }
            Op::HardLink { layer, path, to } => {
                self.live.contains(layer)
                    && self.dir_is_real_dir(*layer)
                    && self.can_place(&self.ldir(*layer), path, false)
                    && self.snap.get(to).is_some_and(Node::is_file)
            }
            Op::MkDir { layer, path, .. } | Op::Symlink { layer, path, .. } => {
                self.live.contains(layer)
                    && self.dir_is_real_dir(*layer)
                    && self.can_place(&self.ldir(*layer), path, false)
            }
            Op::Implicit { layer, which, .. } => {
                *which < 4 && self.live.contains(layer) && self.dir_is_real_dir(*layer)
            }
            Op::SpecDir { layer, files, links } => {
                if !(self.live.contains(layer) && self.dir_is_real_dir(*layer)) {
                    return false;
                }
                let mut m = self.clone();
                let l = m.ldir(*layer);
                for d in ["env", "env.build", "env.launch"] {
                    m.snap.remove_tree(&join(&l, d.as_bytes()));
                }
                if !m.files_ok(&l, files, false) {
                    return false;
                }
                for f in files {
                    m.put_file(&l, f);
                }
                // every link sits in an existing env directory, on a free name, and resolves to
                // a file or directory of this layer's env directories
                links.iter().all(|k| {
                    let full = join(&l, &k.path);
                    m.can_place(&l, &k.path, false)
                        && full.rsplitn(2, |c| *c == b'/').nth(1).is_some_and(|parent| m.snap.get(parent).is_some_and(Node::is_dir))
                        && {
                            let mut t = m.clone();
                            t.snap.insert(full.clone(), Node::Symlink { target: k.target.clone() });
                            t.snap.resolve(&full, &t.root_abs).is_some_and(|r| r.starts_with(&join(&l, b"env")))
                        }
                })
            }
            Op::TopSymlink { layer, .. } => {
                // only for a layer that exists with its metadata file (so that requests reach
                // the callbacks), and only once
                self.dir_is_real_dir(*layer) && self.snap.contains(&self.ltoml(*layer))
            }
            Op::TomlLink { layer, .. } => {
                self.dir_is_real_dir(*layer) && self.snap.get(&self.ltoml(*layer)).is_some_and(Node::is_file)
            }
            Op::ExecDAlias { layer, from, to, .. } => {
                let e = join(&self.ldir(*layer), b"exec.d");
                from != to
                    && self.dir_is_real_dir(*layer)
                    && self.snap.get(&e).is_some_and(Node::is_dir)
                    && self.snap.get(&join(&e, from.as_bytes())).is_some_and(Node::is_file)
                    && !self.snap.get(&join(&e, to.as_bytes())).is_some_and(Node::is_dir)
            }
            Op::ChmodLayer { layer, .. } => self.dir_is_real_dir(*layer),
            Op::ChmodToml { layer, .. } => self.snap.get(&self.ltoml(*layer)).is_some_and(Node::is_file),
            Op::RewriteSource { idx, .. } => self.source(*idx).is_some(),
            Op::CorruptToml { layer } => self.snap.get(&self.ltoml(*layer)).is_some_and(Node::is_file),
            Op::SbomLink { layer, format, .. } => {
                *format < 3
                    && self.dir_is_real_dir(*layer)
                    && !self.snap.get(&self.lsbom(*layer, *format)).is_some_and(Node::is_dir)
            }
            Op::Restore { .. } => true,
        }
    }

    pub fn apply(&mut self, op: &Op) -> Expectation {
        match op {
            Op::Cached {
                id,
                layer,
                build,
                launch,
                kind,
                enc_restored,
                enc_invalid,
                restored,
                invalid,
            } => {
                let mut e = self.struct_request(
                    *id,
                    *layer,
                    (*build, *launch, true),
                    *kind,
                    *enc_restored,
                    *enc_invalid,
                    *restored,
                    invalid,
                );
                self.after_request(*layer, &mut e);
                e
            }
            Op::Uncached { id, layer, build, launch } => {
                let mut e = self.struct_request(
                    *id,
                    *layer,
                    (*build, *launch, false),
                    MetaKind::Generic,
                    Enc::Bare,
                    Enc::Bare,
                    Restored::Delete,
                    &Invalid::Delete,
                );
                // uncached_layer's internal callbacks are not the buildpack's: nothing to log
                e.callbacks.clear();
                self.after_request(*layer, &mut e);
                e
            }
            Op::Handle {
                id,
                layer,
                build,
                launch,
                cache,
                kind,
                strategy,
                migration,
                result,
                types_after,
            } => {
                // every successful path runs strategy, create or update first, so the types that
                // get persisted are the ones the layer reports afterwards
                let (build, launch, cache) = &types_after.unwrap_or((*build, *launch, *cache));
                let mut e = self.trait_request(
                    *id,
                    *layer,
                    (*build, *launch, *cache),
                    *kind,
                    *strategy,
                    migration,
                    result,
                );
                self.after_request(*layer, &mut e);
                e
            }
            Op::WriteMetadata { meta: MetaVal::Unwritable, .. } => {
                // serialisation fails before anything is written: an error, nothing changes
                Expectation::simple(ExpResult::ErrOther)
            }
            Op::WriteMetadata { layer, meta, .. } => {
                let (types, _) = self.read_toml(*layer).unwrap_or((None, None));
                self.write_toml(*layer, types, meta.table());
                Expectation::simple(ExpResult::UnitOk)
            }
            Op::WriteEnv { layer, .. } if self.env_path_blocked(*layer) => {
                // something that is not a directory sits where an env directory belongs
                let mut e = Expectation::simple(ExpResult::ErrOther);
                e.unconstrained = Some(*layer);
                e
            }
            Op::EnvCycle { layer, .. } if self.env_path_blocked(*layer) && !self.env_has_dangling_link(*layer) => {
                let mut e = Expectation::simple(ExpResult::ErrOther);
                e.unconstrained = Some(*layer);
                e
            }
            Op::WriteEnv { layer, env } if env_name_too_long(env) => {
                // NAME.<behaviour> would exceed NAME_MAX: the write must fail (and report it)
                let mut e = Expectation::simple(ExpResult::ErrOther);
                e.unconstrained = Some(*layer);
                e
            }
            Op::WriteEnv { layer, env } => {
                let m = EnvModel::from_spec(env);
                self.set_env_dirs(*layer, &m);
                Expectation::simple(ExpResult::UnitOk)
            }
            Op::ReadEnv { layer, .. } if self.env_has_dangling_link(*layer) => {
                // an entry that cannot be opened is an error for every reader (lifecycle too)
                Expectation::simple(ExpResult::ErrOther)
            }
            Op::EnvCycle { layer, .. } if self.env_has_dangling_link(*layer) => {
                Expectation::simple(ExpResult::ErrOther)
            }
            Op::ReadEnv { layer, .. } => {
                Expectation::simple(ExpResult::EnvRead(Box::new(self.env_of(*layer))))
            }
            Op::EnvCycle { layer, .. } => {
                let env = self.env_of(*layer).explicit_only();
                self.set_env_dirs(*layer, &env);
                Expectation::simple(ExpResult::UnitOk)
            }
            Op::WriteSboms { layer, sboms } => {
                self.replace_sboms(*layer, sboms);
                Expectation::simple(ExpResult::UnitOk)
            }
            Op::WriteExecD { layer, progs } => {
                if self.replace_execd(*layer, progs) {
                    Expectation::simple(ExpResult::UnitOk)
                } else {
                    let mut e = Expectation::simple(ExpResult::ErrOther);
                    e.unconstrained = Some(*layer);
                    e
                }
            }
            Op::PlainFile { layer, file } => {
                let l = self.ldir(*layer);
                self.put_file(&l, file);
                Expectation::simple(ExpResult::NoCall)
            }
            Op::MkDir { layer, path, mode } => {
                let l = self.ldir(*layer);
                let comps: Vec<&[u8]> = path.split(|c| *c == b'/').collect();
                let mut cur = l.clone();
                for c in &comps[..comps.len() - 1] {
                    cur = join(&cur, c);
                    self.snap.nodes.entry(cur.clone()).or_insert_with(Node::dir);
                }
                self.snap.insert(join(&l, path), Node::Dir { mode: *mode });
                Expectation::simple(ExpResult::NoCall)
            }
            Op::Symlink { layer, path, target } => {
                let l = self.ldir(*layer);
                let comps: Vec<&[u8]> = path.split(|c| *c == b'/').collect();
                let mut cur = l.clone();
                for c in &comps[..comps.len() - 1] {
                    cur = join(&cur, c);
                    self.snap.nodes.entry(cur.clone()).or_insert_with(Node::dir);
                }
                let full = join(&l, path);
                let t = self.link_target_bytes(&full, target);
                self.snap.insert(full, Node::Symlink { target: t });
                Expectation::simple(ExpResult::NoCall)
            }
            Op::HardLink { layer, path, to } => {
                let l = self.ldir(*layer);
                let comps: Vec<&[u8]> = path.split(|c| *c == b'/').collect();
                let mut cur = l.clone();
                for c in &comps[..comps.len() - 1] {
                    cur = join(&cur, c);
                    self.snap.nodes.entry(cur.clone()).or_insert_with(Node::dir);
                }
                if let Some(n) = self.snap.get(to).cloned() {
                    self.snap.insert(join(&l, path), n);
                }
                Expectation::simple(ExpResult::NoCall)
            }
            Op::Implicit { layer, which, kind } => {
                let l = self.ldir(*layer);
                let full = join(&l, IMPLICIT_NAMES[*which].as_bytes());
                self.snap.remove_tree(&full);
                match kind {
                    PathKind::Absent => {}
                    PathKind::Dir => self.snap.insert(full, Node::dir()),
                    PathKind::File => self.snap.insert(full, Node::file(b"not a dir".to_vec())),
                    PathKind::LinkToDir => {
                        let t = if which % 2 == 0 {
                            LinkTarget::Abs(p("outside/canary/dir_w"))
                        } else {
                            LinkTarget::Rel(p("outside/canary/dir_w"))
                        };
                        let t = self.link_target_bytes(&full, &t);
                        self.snap.insert(full, Node::Symlink { target: t });
                    }
                    PathKind::LinkToFile => {
                        let t = if which % 2 == 0 {
                            LinkTarget::Rel(p("outside/canary/file_a"))
                        } else {
                            LinkTarget::Abs(p("outside/canary/file_a"))
                        };
                        let t = self.link_target_bytes(&full, &t);
                        self.snap.insert(full, Node::Symlink { target: t });
                    }
                    PathKind::Dangling => self.snap.insert(
                        full,
                        Node::Symlink {
                            target: p("no-such-target"),
                        },
                    ),
                    PathKind::LinkLoop => {
                        let t = IMPLICIT_NAMES[*which].as_bytes().to_vec();
                        self.snap.insert(full, Node::Symlink { target: t });
                    }
                    PathKind::LinkThroughFile => {
                        // outside/canary/file_a is a regular file: a path beneath it cannot resolve
                        let t = self.link_target_bytes(&full, &LinkTarget::Abs(p("outside/canary/file_a/sub")));
                        self.snap.insert(full, Node::Symlink { target: t });
                    }
                }
                Expectation::simple(ExpResult::NoCall)
            }
            Op::SpecDir { layer, files, links } => {
                let l = self.ldir(*layer);
                for d in ["env", "env.build", "env.launch"] {
                    self.snap.remove_tree(&join(&l, d.as_bytes()));
                }
                let own = self.abs(&l);
                for f in files {
                    self.put_file(&l, &super::ops::with_layer_path(f, &own));
                }
                for k in links {
                    self.snap.insert(join(&l, &k.path), Node::Symlink { target: k.target.clone() });
                }
                Expectation::simple(ExpResult::NoCall)
            }
            Op::TopSymlink { layer, abs, sibling } => {
                let l = self.ldir(*layer);
                self.snap.remove_tree(&l);
                // another layer's directory (the lowest-numbered one that is a real directory),
                // else the canary directory beside the layers directory
                let other = (0..self.layers.len()).find(|o| *sibling && o != layer && self.dir_is_real_dir(*o));
                let dest = match other {
                    Some(o) => self.ldir(o),
                    None => p("outside/target_dir"),
                };
                let t = if *abs { LinkTarget::Abs(dest) } else { LinkTarget::Rel(dest) };
                let t = self.link_target_bytes(&l, &t);
                self.snap.insert(l, Node::Symlink { target: t });
                self.live.remove(layer);
                self.refs.remove(layer);
                Expectation::simple(ExpResult::NoCall)
            }
            Op::TomlLink { layer, abs } => {
                let path = self.ltoml(*layer);
                let t = if *abs {
                    LinkTarget::Abs(p("outside/canary/layer.toml"))
                } else {
                    LinkTarget::Rel(p("outside/canary/layer.toml"))
                };
                let target = self.link_target_bytes(&path, &t);
                self.snap.insert(path, Node::Symlink { target });
                Expectation::simple(ExpResult::NoCall)
            }
            Op::ExecDAlias { layer, from, to, hard } => {
                let e = join(&self.ldir(*layer), b"exec.d");
                let dst = join(&e, to.as_bytes());
                if *hard {
                    if let Some(n) = self.snap.get(&join(&e, from.as_bytes())).cloned() {
                        self.snap.insert(dst, n);
                    }
                } else {
                    self.snap.insert(dst, Node::Symlink { target: from.as_bytes().to_vec() });
                }
                Expectation::simple(ExpResult::NoCall)
            }
            Op::ChmodLayer { layer, mode } => {
                let d = self.ldir(*layer);
                self.snap.insert(d, Node::Dir { mode: *mode });
                Expectation::simple(ExpResult::NoCall)
            }
            Op::ChmodToml { layer, mode } => {
                let t = self.ltoml(*layer);
                if let Some(Node::File { data, .. }) = self.snap.get(&t).cloned() {
                    self.snap.insert(t, Node::File { data, mode: *mode });
                }
                Expectation::simple(ExpResult::NoCall)
            }
            Op::CorruptToml { layer } => {
                let t = self.ltoml(*layer);
                self.snap.insert(t, Node::file(b"[metadata]\nversion = \"trunca".to_vec()));
                Expectation::simple(ExpResult::NoCall)
            }
            Op::RewriteSource { idx, data } => {
                let path = format!("execd_src/p{idx}").into_bytes();
                if let Some(Node::File { mode, .. }) = self.snap.get(&path).cloned() {
                    self.snap.insert(path, Node::File { data: data.clone(), mode });
                }
                Expectation::simple(ExpResult::NoCall)
            }
            Op::SbomLink { layer, format, kind } => {
                let path = self.lsbom(*layer, *format);
                let target = match kind {
                    0 => b"gone/nowhere.json".to_vec(),
                    1 => path.rsplit(|c| *c == b'/').next().unwrap_or(&path).to_vec(),
                    2 => self.abs(&p("outside/canary/file_a")),
                    _ => self.link_target_bytes(&path, &LinkTarget::Rel(p("outside/canary"))),
                };
                self.snap.insert(path, Node::Symlink { target });
                Expectation::simple(ExpResult::NoCall)
            }
            Op::Restore { kind } => {
                self.restore(*kind);
                Expectation::simple(ExpResult::NoCall)
            }
        }
    }

    fn after_request(&mut self, layer: usize, e: &mut Expectation) {
        self.refs.remove(&layer);
        match e.result {
            ExpResult::StructOk(_) => {
                self.live.insert(layer);
                self.refs.insert(layer);
            }
            ExpResult::TraitOk { .. } => {
                self.live.insert(layer);
            }
            _ => {
                self.live.remove(&layer);
            }
        }
    }

    /// Bytes of a symlink target for a link located at `link_path` (root-relative).
    pub fn link_target_bytes(&self, link_path: &[u8], t: &LinkTarget) -> Vec<u8> {
        match t {
            LinkTarget::Abs(rel) => self.abs(rel),
            LinkTarget::Rel(rel) => {
                let depth = link_path.iter().filter(|c| **c == b'/').count();
                let mut v = Vec::new();
                for _ in 0..depth {
                    v.extend_from_slice(b"../");
                }
                v.extend_from_slice(rel);
                v
            }
            LinkTarget::Raw(b) => b.clone(),
        }
    }

    #[allow(clippy::too_many_arguments)]
    fn struct_request(
        &mut self,
        id: u32,
        i: usize,
        types: Types,
        kind: MetaKind,
        enc_r: Enc,
        enc_i: Enc,
        restored: Restored,
        invalid: &Invalid,
    ) -> Expectation {
        let pre_class = self.pre_class(i, kind);
        let mut callbacks = Vec::new();
        let mut path = String::new();
        let restored = if restored == Restored::Err && !enc_r.can_err() {
            Restored::Delete
        } else {
            restored
        };
        let invalid = if matches!(invalid, Invalid::Err) && !enc_i.can_err() {
            Invalid::Delete
        } else {
            invalid.clone()
        };
        let cause_r = enc_r.has_cause().then(|| cause_restored(id));
        let cause_i = enc_i.has_cause().then(|| cause_invalid(id));
        let fin = |m: &mut Model, result: ExpResult, unconstrained: Option<usize>, callbacks: Vec<ExpCallback>, path: String| {
            let _ = m;
            Expectation {
                result,
                callbacks,
                unconstrained,
                pre_class: pre_class.clone(),
                path,
            }
        };
        for _round in 0..4 {
            match self.norm(i) {
                None => {
                    self.create_empty(i, types);
                    path.push_str("new");
                    return fin(self, ExpResult::StructOk(Reported::EmptyNew), None, callbacks, path);
                }
                Some((disk_types, md)) => {
                    if valid(kind, &md) {
                        callbacks.push(ExpCallback {
                            kind: CbKind::Restored,
                            md: project(kind, &md),
                            env: None,
                        });
                        match restored {
                            Restored::Keep => {
                                self.write_toml(i, Some(types), md);
                                path.push_str("keep");
                                return fin(
                                    self,
                                    ExpResult::StructOk(Reported::Restored { cause: cause_r }),
                                    None,
                                    callbacks,
                                    path,
                                );
                            }
                            Restored::Delete => {
                                self.delete(i);
                                self.create_empty(i, types);
                                path.push_str("delete");
                                return fin(
                                    self,
                                    ExpResult::StructOk(Reported::EmptyRestored { cause: cause_r }),
                                    None,
                                    callbacks,
                                    path,
                                );
                            }
                            Restored::Err => {
                                path.push_str("restored-err");
                                return fin(
                                    self,
                                    ExpResult::ErrBuildpack(err_code(id, 0)),
                                    Some(i),
                                    callbacks,
                                    path,
                                );
                            }
                        }
                    }
                    callbacks.push(ExpCallback {
                        kind: CbKind::Invalid,
                        md: md.clone(),
                        env: None,
                    });
                    match &invalid {
                        Invalid::Delete => {
                            self.delete(i);
                            self.create_empty(i, types);
                            path.push_str("invalid-delete");
                            return fin(
                                self,
                                ExpResult::StructOk(Reported::EmptyInvalid { cause: cause_i }),
                                None,
                                callbacks,
                                path,
                            );
                        }
                        Invalid::Replace(m) => {
                            self.write_toml(i, disk_types, m.table());
                            path.push_str("replace>");
                        }
                        Invalid::Err => {
                            path.push_str("invalid-err");
                            return fin(
                                self,
                                ExpResult::ErrBuildpack(err_code(id, 1)),
                                Some(i),
                                callbacks,
                                path,
                            );
                        }
                    }
                }
            }
        }
        // a replacement that is itself invalid would recurse forever; generators exclude it
        fin(self, ExpResult::ErrOther, Some(i), callbacks, path)
    }

    #[allow(clippy::too_many_arguments)]
    fn trait_request(
        &mut self,
        id: u32,
        i: usize,
        types: Types,
        kind: MetaKind,
        strategy: Strategy,
        migration: &Migration,
        res: &ResSpec,
    ) -> Expectation {
        let pre_class = self.pre_class(i, kind);
        let mut callbacks: Vec<ExpCallback> = Vec::new();
        let mut path = String::new();
        macro_rules! done {
            ($result:expr, $unc:expr) => {
                return Expectation {
                    result: $result,
                    callbacks,
                    unconstrained: $unc,
                    pre_class,
                    path,
                }
            };
        }
        for _round in 0..4 {
            match self.norm(i) {
                None => {
                    // create from an empty directory
                    self.snap.nodes.entry(self.ldir(i)).or_insert_with(Node::dir);
                    callbacks.push(ExpCallback {
                        kind: CbKind::Create,
                        md: None,
                        env: None,
                    });
                    path.push_str("create");
                    if res.fail {
                        path.push_str("-err");
                        done!(ExpResult::ErrBuildpack(err_code(id, 2)), Some(i));
                    }
                    let r = self.write_result(i, types, res);
                    let unc = matches!(r, ExpResult::ErrOther).then_some(i);
                    done!(r, unc);
                }
                Some((disk_types, md)) => {
                    let pre_env = self.env_of(i);
                    if valid(kind, &md) {
                        callbacks.push(ExpCallback {
                            kind: CbKind::Strategy,
                            md: project(kind, &md),
                            env: Some(pre_env.clone()),
                        });
                        match strategy {
                            Strategy::Err => {
                                path.push_str("strategy-err");
                                done!(ExpResult::ErrBuildpack(err_code(id, 0)), Some(i));
                            }
                            Strategy::Recreate => {
                                self.delete(i);
                                path.push_str("recreate>");
                            }
                            Strategy::Update => {
                                callbacks.push(ExpCallback {
                                    kind: CbKind::Update,
                                    md: project(kind, &md),
                                    env: Some(pre_env),
                                });
                                path.push_str("update");
                                if res.fail {
                                    path.push_str("-err");
                                    done!(ExpResult::ErrBuildpack(err_code(id, 2)), Some(i));
                                }
                                let r = self.write_result(i, types, res);
                                let unc = matches!(r, ExpResult::ErrOther).then_some(i);
                                done!(r, unc);
                            }
                            Strategy::Keep => {
                                // what was there before, with only the types refreshed
                                self.write_toml(i, Some(types), md.clone());
                                path.push_str("keep");
                                let env = self.env_of(i);
                                // on disk: everything the previous build left; in the returned
                                // data: what the layer's metadata type can represent
                                done!(
                                    ExpResult::TraitOk {
                                        types,
                                        meta: project(kind, &md),
                                        env: Box::new(env)
                                    },
                                    None
                                );
                            }
                        }
                    } else {
                        callbacks.push(ExpCallback {
                            kind: CbKind::Migration,
                            md: md.clone(),
                            env: None,
                        });
                        match migration {
                            Migration::Err => {
                                path.push_str("migration-err");
                                done!(ExpResult::ErrBuildpack(err_code(id, 1)), Some(i));
                            }
                            Migration::Recreate => {
                                self.delete(i);
                                path.push_str("mig-recreate>");
                            }
                            Migration::Replace(m) => {
                                self.write_toml(i, disk_types, m.table());
                                let explicit = pre_env.explicit_only();
                                self.set_env_dirs(i, &explicit);
                                path.push_str("mig-replace>");
                            }
                        }
                    }
                }
            }
        }
        done!(ExpResult::ErrOther, Some(i));
    }

    fn write_result(&mut self, i: usize, types: Types, res: &ResSpec) -> ExpResult {
        let l = self.ldir(i);
        for f in &res.files {
            self.put_file(&l, f);
        }
        self.write_toml(i, Some(types), res.meta.table());
        if res.env.as_deref().is_some_and(env_name_too_long) {
            return ExpResult::ErrOther;
        }
        let env = EnvModel::from_spec(res.env.as_deref().unwrap_or(&[]));
        self.set_env_dirs(i, &env);
        self.replace_sboms(i, &res.sboms);
        if !self.replace_execd(i, &res.execd) {
            return ExpResult::ErrOther;
        }
        ExpResult::TraitOk {
            types,
            meta: res.meta.table(),
            env: Box::new(self.env_of(i)),
        }
    }

    /// The stub lifecycle between two builds.
    pub fn restore(&mut self, kind: RestoreKind) {
        let old = self.snap.clone();
        // drop everything directly inside layers/, then put back what the lifecycle restores
        let top: Vec<Vec<u8>> = old.children(b"layers");
        for c in &top {
            self.snap.remove_tree(&join(b"layers", c));
        }
        if kind != RestoreKind::Fresh {
            if let Some(n) = old.get(b"layers/store.toml") {
                self.snap.insert(p("layers/store.toml"), n.clone());
            }
            for i in 0..self.layers.len() {
                let toml_path = self.ltoml(i);
                let Some(Node::File { data, .. }) = old.get(&toml_path) else {
                    continue;
                };
                let (types, md) = parse_layer_toml(data).unwrap_or((None, None));
                let (_b, launch, cache) = types.unwrap_or((false, false, false));
                let dir = self.ldir(i);
                let dir_is_dir = old.get(&dir).is_some_and(Node::is_dir);
                let keep_dir = cache && dir_is_dir && kind != RestoreKind::CacheEvicted;
                let keep_toml = keep_dir || launch;
                if keep_dir {
                    self.snap.insert(dir.clone(), old.get(&dir).cloned().unwrap_or_else(Node::dir));
                    self.snap.graft(&dir, &old.subtree(&dir));
                    for f in 0..3 {
                        let sp = self.lsbom(i, f);
                        if let Some(n) = old.get(&sp) {
                            self.snap.insert(sp, n.clone());
                        }
                    }
                }
                if keep_toml {
                    let omit = kind == RestoreKind::EmptyTomlOmitted && md.is_none();
                    if !omit {
                        self.snap.insert(
                            toml_path,
                            Node::File {
                                data: emit_layer_toml(None, md.as_ref()),
                                mode: 0o644,
                            },
                        );
                    }
                }
            }
        }
        self.live.clear();
        self.refs.clear();
        self.builds += 1;
    }
}

/// Would writing this environment need a file name longer than NAME_MAX (255 bytes)?
pub fn env_name_too_long(spec: &[crate::envmodel::EnvEntry]) -> bool {
    spec.iter().any(|e| e.name.len() + 1 + e.beh.suffix().len() > 255)
}

pub fn parse_layer_toml(data: &[u8]) -> Option<(Option<Types>, Option<toml::Table>)> {
    let text = std::str::from_utf8(data).ok()?;
    let t: toml::Table = text.parse().ok()?;
    let types = match t.get("types") {
        None => None,
        Some(toml::Value::Table(tt)) => {
            let g = |k: &str| tt.get(k).and_then(toml::Value::as_bool).unwrap_or(false);
            Some((g("build"), g("launch"), g("cache")))
        }
        Some(_) => return None,
    };
    let md = match t.get("metadata") {
        None => None,
        Some(toml::Value::Table(m)) => Some(m.clone()),
        Some(_) => return None,
    };
    Some((types, md))
}

pub fn emit_layer_toml(types: Option<Types>, md: Option<&toml::Table>) -> Vec<u8> {
    let mut t = toml::Table::new();
    if let Some((b, l, c)) = types {
        let mut tt = toml::Table::new();
        tt.insert("launch".into(), toml::Value::Boolean(l));
        tt.insert("build".into(), toml::Value::Boolean(b));
        tt.insert("cache".into(), toml::Value::Boolean(c));
        t.insert("types".into(), toml::Value::Table(tt));
    }
    if let Some(m) = md {
        t.insert("metadata".into(), toml::Value::Table(m.clone()));
    }
    toml::to_string(&t).unwrap_or_default().into_bytes()
}

/// Semantic comparison of two layer content metadata files (formatting is libcnb's business).
pub fn layer_toml_equal(a: &[u8], b: &[u8]) -> bool {
    match (parse_layer_toml(a), parse_layer_toml(b)) {
        (Some(x), Some(y)) => x == y && extra_keys(a) == extra_keys(b),
        _ => false,
    }
}

fn extra_keys(data: &[u8]) -> Vec<String> {
    std::str::from_utf8(data)
        .ok()
        .and_then(|t| t.parse::<toml::Table>().ok())
        .map(|t| {
            t.keys()
                .filter(|k| *k != "types" && *k != "metadata")
                .cloned()
                .collect()
        })
        .unwrap_or_default()
}
