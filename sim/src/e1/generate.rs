//! Seeded generation of E1 histories (swarm style: every run draws its own op mix, sizes,
//! restore behaviours and payload profile).

use super::model::{Model, RESERVED_TOP};
use super::ops::*;
use crate::envmodel::{BEHS, EnvEntry, EnvSpec, ScopeM};
use crate::rng::Rng;
use serde::{Deserialize, Serialize};

#[derive(Clone, Copy, Debug, PartialEq, Eq, Serialize, Deserialize, Hash)]
pub enum Class {
    C01,
    C02,
    C03,
    C10,
    C11,
    Mixed,
}

impl Class {
    pub fn parse(s: &str) -> Option<Class> {
        Some(match s {
            "C01" => Class::C01,
            "C02" => Class::C02,
            "C03" => Class::C03,
            "C10" => Class::C10,
            "C11" => Class::C11,
            "Mixed" | "C12" => Class::Mixed,
            _ => return None,
        })
    }
}

const K_CACHED: usize = 0;
const K_UNCACHED: usize = 1;
const K_HANDLE: usize = 2;
const K_WMETA: usize = 3;
const K_WENV: usize = 4;
const K_RENV: usize = 5;
const K_CYCLE: usize = 6;
const K_WSBOM: usize = 7;
const K_WEXECD: usize = 8;
const K_FILE: usize = 9;
const K_MKDIR: usize = 10;
const K_SYMLINK: usize = 11;
const K_IMPLICIT: usize = 12;
const K_SPECDIR: usize = 13;
const K_TOPLINK: usize = 14;
const K_RESTORE: usize = 15;
const NKINDS: usize = 16;

#[derive(Clone, Debug, Serialize, Deserialize)]
pub struct Swarm {
    pub class: Class,
    pub weights: [u32; NKINDS],
    pub steps: usize,
    pub nlayers: usize,
    pub restore_kinds: Vec<RestoreKind>,
    pub big_payloads: bool,
    pub byte_names: bool,
    pub errors: bool,
    pub kinds: Vec<MetaKind>,
}

pub fn swarm(seed: u64, class: Class, max_steps: usize) -> Swarm {
    let mut r = Rng::sub(seed, "swarm");
    let mut w: [u32; NKINDS] = match class {
        //            cach unc hand wmeta wenv renv cyc sbom execd file mkdir sym impl spec top rest
        Class::C01 => [30, 8, 2, 10, 8, 3, 1, 8, 6, 10, 2, 0, 2, 0, 2, 12],
        Class::C02 => [4, 1, 40, 5, 3, 2, 1, 3, 2, 6, 2, 0, 3, 0, 0, 14],
        Class::C03 => [2, 1, 8, 0, 40, 25, 5, 0, 0, 2, 0, 0, 0, 14, 0, 4],
        Class::C10 => [5, 1, 8, 0, 10, 25, 15, 0, 0, 3, 2, 0, 35, 6, 0, 3],
        Class::C11 => [12, 10, 10, 1, 2, 0, 0, 2, 2, 10, 20, 25, 2, 0, 6, 5],
        Class::Mixed => [12, 5, 12, 6, 8, 6, 3, 6, 6, 8, 4, 3, 5, 0, 3, 8],
    };
    // swarm: switch off a random subset of the non-request kinds
    for (k, wk) in w.iter_mut().enumerate() {
        let essential = match class {
            Class::C01 => k == K_CACHED,
            Class::C02 => k == K_HANDLE,
            Class::C03 => k == K_WENV || k == K_RENV,
            Class::C10 => k == K_IMPLICIT || k == K_RENV,
            Class::C11 => k == K_SYMLINK || k == K_MKDIR,
            Class::Mixed => false,
        };
        if !essential && k != K_RESTORE && r.chance(1, 5) {
            *wk = 0;
        }
    }
    if r.chance(1, 8) {
        w[K_RESTORE] = 0;
    }
    let all_restores = [
        RestoreKind::Normal,
        RestoreKind::Normal,
        RestoreKind::CacheEvicted,
        RestoreKind::Fresh,
        RestoreKind::EmptyTomlOmitted,
    ];
    let mut restore_kinds: Vec<RestoreKind> =
        all_restores.iter().copied().filter(|_| r.chance(3, 5)).collect();
    if restore_kinds.is_empty() {
        restore_kinds.push(RestoreKind::Normal);
    }
    let mut kinds = vec![MetaKind::Generic, MetaKind::A, MetaKind::B];
    if r.chance(1, 4) {
        kinds.remove(r.usize(3));
    }
    let steps = r.range(4.min(max_steps as u64), max_steps as u64) as usize;
    Swarm {
        class,
        weights: w,
        steps,
        nlayers: match class {
            Class::C03 | Class::C10 => 1 + r.usize(2),
            _ => 1 + r.usize(4),
        },
        restore_kinds,
        big_payloads: r.chance(1, 6),
        byte_names: class == Class::C03 || r.chance(1, 3),
        errors: r.chance(3, 4),
        kinds,
    }
}

fn gen_string(r: &mut Rng) -> String {
    const POOL: [&str; 10] = [
        "1.2.3",
        "",
        "abc",
        "with space",
        "quote\"d",
        "back\\slash",
        "line\nbreak",
        "ünï-çødé",
        "tab\there",
        "0",
    ];
    if r.chance(1, 5) {
        let n = r.usize(6);
        (0..n).map(|_| (b'a' + r.below(26) as u8) as char).collect()
    } else {
        (*r.pick(&POOL)).to_string()
    }
}

fn gen_value(r: &mut Rng, depth: u32) -> toml::Value {
    match r.below(if depth >= 2 { 4 } else { 6 }) {
        0 => toml::Value::String(gen_string(r)),
        1 => toml::Value::Integer(*r.pick(&[0, 1, -1, 42, i64::MAX, i64::MIN + 1])),
        2 => toml::Value::Boolean(r.bool()),
        3 => toml::Value::Float(*r.pick(&[0.5, -1.5, 1e10, 3.25])),
        4 => {
            let n = r.usize(3);
            // homogeneous or mixed arrays are both valid TOML 1.0
            toml::Value::Array((0..n).map(|_| gen_value(r, depth + 1)).collect())
        }
        _ => toml::Value::Table(gen_table(r, depth + 1)),
    }
}

pub fn gen_table(r: &mut Rng, depth: u32) -> toml::Table {
    const KEYS: [&str; 8] = ["version", "sha", "k", "a b", "ключ", "x.y", "nested", ""];
    let mut t = toml::Table::new();
    let n = r.usize(4);
    for _ in 0..n {
        t.insert((*r.pick(&KEYS)).to_string(), gen_value(r, depth));
    }
    t
}

pub fn gen_meta(r: &mut Rng, kind: MetaKind) -> MetaVal {
    match kind {
        MetaKind::Generic => {
            if r.chance(1, 4) {
                MetaVal::Absent
            } else {
                MetaVal::Table(gen_table(r, 0))
            }
        }
        MetaKind::A => MetaVal::A { version: gen_string(r) },
        MetaKind::B => MetaVal::B {
            version: gen_string(r),
            sha: gen_string(r),
        },
        MetaKind::Loose => MetaVal::Loose { version: gen_string(r) },
    }
}

fn gen_bytes(r: &mut Rng, big: bool) -> Vec<u8> {
    let n = if big && r.chance(1, 12) {
        // longer than the usual I/O buffer sizes (8 KiB, 64 KiB)
        *r.pick(&[8_193usize, 20_000, 66_000])
    } else if big && r.chance(1, 3) {
        200 + r.usize(5000)
    } else {
        r.usize(14)
    };
    match r.below(4) {
        0 => r.bytes(n),
        1 => (0..n).map(|_| *r.pick(b"ab:/ \n=\"'\\$")).collect(),
        _ => (0..n).map(|_| b'a' + r.below(26) as u8).collect(),
    }
}

const PROCESSES: [&str; 4] = ["web", "worker", "a.b", "web.override"];

fn gen_env_name(r: &mut Rng, sw: &Swarm) -> Vec<u8> {
    const NAMES: [&str; 14] = [
        "PATH",
        "FOO",
        "LD_LIBRARY_PATH",
        "LIBRARY_PATH",
        "CPATH",
        "PKG_CONFIG_PATH",
        "BAR",
        "A.B",
        ".hid",
        "X ",
        "ÜNI",
        "FOO.append",
        "lower-case",
        "TRAIL.",
    ];
    if sw.byte_names && r.chance(1, 4) {
        // arbitrary bytes without '/' and NUL, non-empty; up to NAME_MAX minus the longest suffix
        let n = if r.chance(1, 10) { 246 } else if r.chance(1, 25) { 250 + r.usize(6) } else { 1 + r.usize(10) };
        let mut v: Vec<u8> = (0..n)
            .map(|_| loop {
                let b = r.next_u64() as u8;
                if b != 0 && b != b'/' {
                    break b;
                }
            })
            .collect();
        if v == b"." || v == b".." {
            v.push(b'x');
        }
        v
    } else {
        r.pick(&NAMES).as_bytes().to_vec()
    }
}

pub fn gen_envspec(r: &mut Rng, sw: &Swarm) -> EnvSpec {
    let n = match r.below(8) {
        0 => 0,
        1..=4 => 1 + r.usize(3),
        _ => 2 + r.usize(6),
    };
    let mut v = Vec::new();
    for _ in 0..n {
        let scope = match r.below(6) {
            0 | 1 => ScopeM::All,
            2 => ScopeM::Build,
            3 => ScopeM::Launch,
            _ => ScopeM::Process((*r.pick(&PROCESSES)).to_string()),
        };
        v.push(EnvEntry {
            scope,
            beh: *r.pick(&BEHS),
            name: gen_env_name(r, sw),
            value: gen_bytes(r, sw.big_payloads),
        });
    }
    v
}

fn gen_sboms(r: &mut Rng, sw: &Swarm) -> Vec<SbomSpec> {
    let n = r.usize(4);
    (0..n)
        .map(|_| SbomSpec {
            format: r.below(3) as u8,
            data: gen_bytes(r, sw.big_payloads),
        })
        .collect()
}

fn gen_execd(r: &mut Rng, allow_missing: bool) -> Vec<ExecDSpec> {
    const NAMES: [&str; 5] = ["prog", "a.sh", "x-1", "p_2", "Z"];
    let n = r.usize(4);
    (0..n)
        .map(|_| ExecDSpec {
            name: (*r.pick(&NAMES)).to_string(),
            source: if allow_missing && r.chance(1, 12) {
                EXECD_SOURCES + 1
            } else {
                r.usize(EXECD_SOURCES)
            },
        })
        .collect()
}

fn gen_rel_path(r: &mut Rng, max_depth: usize) -> Vec<u8> {
    const COMPS: [&str; 12] = [
        "f", "data", "bin", "lib", "sub", "d e", "ü", "include", "pkgconfig", "deep", "x.toml", "n",
    ];
    let depth = 1 + r.usize(max_depth);
    let mut v: Vec<u8> = Vec::new();
    for i in 0..depth {
        let mut c = *r.pick(&COMPS);
        if i == 0 {
            while RESERVED_TOP.contains(&c) {
                c = *r.pick(&COMPS);
            }
        } else {
            v.push(b'/');
        }
        v.extend_from_slice(c.as_bytes());
    }
    v
}

fn gen_file(r: &mut Rng, sw: &Swarm, max_depth: usize) -> FileSpec {
    FileSpec {
        path: gen_rel_path(r, max_depth),
        data: gen_bytes(r, sw.big_payloads),
        mode: *r.pick(&[0o644, 0o600, 0o755, 0o444]),
    }
}

fn gen_result(r: &mut Rng, sw: &Swarm, kind: MetaKind) -> ResSpec {
    ResSpec {
        fail: sw.errors && r.chance(1, 10),
        meta: gen_meta(r, kind),
        env: if r.chance(1, 4) { None } else { Some(gen_envspec(r, sw)) },
        execd: gen_execd(r, sw.errors),
        sboms: gen_sboms(r, sw),
        files: (0..r.usize(3)).map(|_| gen_file(r, sw, 3)).collect(),
    }
}

fn gen_specdir(r: &mut Rng, sw: &Swarm) -> Vec<FileSpec> {
    // spec-shaped env directories written by the model itself: known suffixes, suffix-less
    // (dot-free) names, unknown suffixes, process sub-directories
    const DIRS: [&str; 5] = ["env", "env.build", "env.launch", "env.launch/web", "env.launch/worker"];
    const SUFFIXLESS: [&str; 5] = ["FOO", "PATH", "lower", "X_Y", "ÜNI"];
    const UNKNOWN: [&str; 4] = ["FOO.unknown", "BAR.", "A.APPEND", "B.append.bak"];
    let mut out: Vec<FileSpec> = Vec::new();
    if r.chance(1, 6) {
        // a directory that holds nothing but delimiter files, next to one with entries
        let var = *r.pick(&["PATH", "LD_LIBRARY_PATH", "FOO"]);
        let only = *r.pick(&["env.build", "env.launch", "env.launch/web", "env"]);
        let f = |path: String, data: &[u8]| FileSpec { path: path.into_bytes(), data: data.to_vec(), mode: 0o644 };
        out.push(f(format!("{only}/{var}.delim"), b":"));
        if only != "env" {
            out.push(f(format!("env/{var}.prepend"), b"/opt/x/bin"));
            out.push(f(format!("env/{var}.delim"), b":"));
        }
        return out;
    }
    if r.chance(1, 6) {
        // an explicit prepend that names the very directory the implicit entry adds
        let (var, sub) = *r.pick(&[("PATH", "bin"), ("LD_LIBRARY_PATH", "lib"), ("CPATH", "include"), ("PKG_CONFIG_PATH", "pkgconfig")]);
        let dir = *r.pick(&["env.build", "env.launch", "env"]);
        let f = |path: String, data: Vec<u8>| FileSpec { path: path.into_bytes(), data, mode: 0o644 };
        out.push(f(format!("{dir}/{var}.prepend"), format!("$LAYER/{sub}").into_bytes()));
        out.push(f(format!("{dir}/{var}.delim"), b":".to_vec()));
        return out;
    }
    let n = 1 + r.usize(6);
    for _ in 0..n {
        let dir = *r.pick(&DIRS);
        let name: Vec<u8> = match r.below(4) {
            0 => r.pick(&SUFFIXLESS).as_bytes().to_vec(),
            1 => r.pick(&UNKNOWN).as_bytes().to_vec(),
            _ => {
                let mut nme = gen_env_name(r, sw);
                nme.truncate(240);
                // FOO and FOO.override must not both be present (which one wins is unspecified)
                nme.push(b'.');
                nme.extend_from_slice(r.pick(&BEHS).suffix().as_bytes());
                nme
            }
        };
        // process directory names must not collide with launch-scope files
        if dir == "env.launch" && (name == b"web" || name == b"worker") {
            continue;
        }
        let mut path = dir.as_bytes().to_vec();
        path.push(b'/');
        path.extend_from_slice(&name);
        if out.iter().any(|f| f.path == path) {
            continue;
        }
        // suffix-less NAME together with NAME.override is left out
        let conflict = |a: &[u8], b: &[u8]| {
            let mut ao = a.to_vec();
            ao.extend_from_slice(b".override");
            ao == b
        };
        if out.iter().any(|f| conflict(&f.path, &path) || conflict(&path, &f.path)) {
            continue;
        }
        out.push(FileSpec {
            path,
            data: gen_bytes(r, sw.big_payloads),
            mode: 0o644,
        });
    }
    out
}

/// Sometimes: a process directory that is a link to a sibling process directory (two process
/// types sharing one set of files), or a variable file that is a link to another variable file.
fn gen_specdir_links(r: &mut Rng, files: &[FileSpec]) -> Vec<LinkSpec> {
    let mut out = Vec::new();
    if !r.chance(1, 3) {
        return out;
    }
    let has = |prefix: &[u8]| files.iter().any(|f| f.path.starts_with(prefix));
    for (dir, other) in [("env.launch/web/", "worker"), ("env.launch/worker/", "web")] {
        if has(dir.as_bytes()) && !has(format!("env.launch/{other}/").as_bytes()) && r.bool() {
            let target = dir.trim_start_matches("env.launch/").trim_end_matches('/');
            out.push(LinkSpec {
                path: format!("env.launch/{other}").into_bytes(),
                target: if r.bool() { target.as_bytes().to_vec() } else { format!("../env.launch/{target}").into_bytes() },
            });
        }
    }
    if r.bool() {
        // a variable file shared between two scopes: same directory depth, sibling scope dir
        if let Some(f) = files.iter().find(|f| f.path.starts_with(b"env/")) {
            let name = &f.path[4..];
            if has(b"env.build/") && !files.iter().any(|g| g.path.strip_prefix(b"env.build/".as_slice()).is_some_and(|n| n == name || crate::e1::generate::same_var(n, name))) {
                let mut path = b"env.build/".to_vec();
                path.extend_from_slice(name);
                let mut target = b"../env/".to_vec();
                target.extend_from_slice(name);
                out.push(LinkSpec { path, target });
            }
        }
    }
    out
}

/// NAME and NAME.override denote the same (behaviour, variable) pair.
pub fn same_var(a: &[u8], b: &[u8]) -> bool {
    let strip = |n: &[u8]| -> Vec<u8> { n.strip_suffix(b".override".as_slice()).unwrap_or(n).to_vec() };
    strip(a) == strip(b)
}

fn layer_names(r: &mut Rng, n: usize) -> Vec<String> {
    const POOL: [&str; 10] = ["a", "b-1", "layer_x", "z9", "node", "deps", "x_y-z", "0", "tool", "cache-me"];
    let mut names: Vec<String> = Vec::new();
    if n >= 2 && r.chance(1, 3) {
        // a dotted name next to a layer named like its stem (names are arbitrary strings)
        let (stem, dotted) = *r.pick(&[("py3", "py3.11"), ("a", "a.b"), ("node", "node.v2.lts"), ("x-1", "x-1.0")]);
        names.push(stem.to_string());
        names.push(dotted.to_string());
        r.shuffle(&mut names);
    }
    if names.is_empty() && r.chance(1, 5) {
        // names are arbitrary strings: quotes, backslash, tab, space
        names.push((*r.pick(&["vendor's gems", "q\"uote", "back\\slash", "t\tab", "two  spaces"])).to_string());
    }
    if names.is_empty() && n >= 2 && r.chance(1, 4) {
        // a layer whose name is a plain prefix of a sibling's name
        let (short, long) = *r.pick(&[("ruby", "ruby-gems"), ("node", "node_modules"), ("a", "a-1"), ("jdk", "jdk17")]);
        names.push(short.to_string());
        names.push(long.to_string());
        r.shuffle(&mut names);
    }
    while names.len() < n {
        let cand = if r.chance(1, 4) {
            let len = 1 + r.usize(12);
            (0..len)
                .map(|_| *r.pick(b"abcdefghijklmnopqrstuvwxyz0123456789_-") as char)
                .collect()
        } else {
            (*r.pick(&POOL)).to_string()
        };
        if !names.contains(&cand) && !["build", "launch", "store"].contains(&cand.as_str()) {
            names.push(cand);
        }
    }
    names
}

struct Gen<'a> {
    r: Rng,
    sw: &'a Swarm,
    next_id: u32,
}

impl Gen<'_> {
    fn id(&mut self) -> u32 {
        self.next_id += 1;
        self.next_id
    }

    fn request(&mut self, layer: usize, deleting: bool) -> Op {
        let r = &mut self.r;
        let sw = self.sw;
        let kind = *r.pick(&sw.kinds);
        let w = [sw.weights[K_CACHED].max(1), sw.weights[K_UNCACHED], sw.weights[K_HANDLE]];
        match r.weighted(&w) {
            0 => {
                // the struct API is also exercised with a metadata type that is narrower than
                // what may be on disk
                let kind = if r.chance(1, 4) { MetaKind::Loose } else { kind };
                let enc_restored = *r.pick(&[Enc::Bare, Enc::Res, Enc::Tuple, Enc::ResTuple]);
                let enc_invalid = *r.pick(&[Enc::Bare, Enc::Res, Enc::Tuple, Enc::ResTuple]);
                let restored = if deleting {
                    Restored::Delete
                } else {
                    match r.below(10) {
                        0..=4 => Restored::Keep,
                        5..=7 => Restored::Delete,
                        _ if sw.errors && enc_restored.can_err() => Restored::Err,
                        _ => Restored::Keep,
                    }
                };
                let invalid = if deleting {
                    Invalid::Delete
                } else {
                    match r.below(10) {
                        0..=3 => Invalid::Delete,
                        4..=7 => Invalid::Replace(gen_meta(r, kind)),
                        _ if sw.errors && enc_invalid.can_err() => Invalid::Err,
                        _ => Invalid::Delete,
                    }
                };
                let id = self.id();
                let r = &mut self.r;
                Op::Cached {
                    id,
                    layer,
                    build: r.bool(),
                    launch: r.bool(),
                    kind,
                    enc_restored,
                    enc_invalid,
                    restored,
                    invalid,
                }
            }
            1 => {
                let id = self.id();
                let r = &mut self.r;
                Op::Uncached {
                    id,
                    layer,
                    build: r.bool(),
                    launch: r.bool(),
                }
            }
            _ => {
                let kind = if r.chance(1, 5) { MetaKind::Loose } else { kind };
                let strategy = if deleting {
                    Strategy::Recreate
                } else {
                    match r.below(10) {
                        0..=3 => Strategy::Keep,
                        4..=6 => Strategy::Update,
                        7 | 8 => Strategy::Recreate,
                        _ if sw.errors => Strategy::Err,
                        _ => Strategy::Keep,
                    }
                };
                let migration = if deleting {
                    Migration::Recreate
                } else {
                    match r.below(10) {
                        0..=3 => Migration::Recreate,
                        4..=8 => Migration::Replace(gen_meta(r, kind)),
                        _ if sw.errors => Migration::Err,
                        _ => Migration::Recreate,
                    }
                };
                let result = gen_result(r, sw, kind);
                let id = self.id();
                let r = &mut self.r;
                Op::Handle {
                    id,
                    layer,
                    build: r.bool(),
                    launch: r.bool(),
                    cache: r.chance(3, 4),
                    kind,
                    strategy,
                    migration,
                    result,
                    types_after: r.chance(1, 5).then(|| (r.bool(), r.bool(), r.bool())),
                }
            }
        }
    }

    fn hostile_link(&mut self, model: &Model, layer: usize) -> Vec<Op> {
        let r = &mut self.r;
        let path = gen_rel_path(r, 4);
        let other = (layer + 1) % model.layers.len();
        let sibling = crate::snap::join(b"layers", model.layers[other].as_bytes());
        if r.chance(1, 6) {
            // a hard link to a file outside the layer: same inode, so a chmod shows outside
            let to = *r.pick(&[&b"outside/canary/file_ro"[..], b"outside/canary/file_a", b"outside/target_dir/keep.txt"]);
            return vec![Op::HardLink {
                layer,
                path,
                to: to.to_vec(),
            }];
        }
        let target = match r.below(10) {
            0 => LinkTarget::Abs(b"outside/canary/file_a".to_vec()),
            1 => LinkTarget::Abs(b"outside/canary/dir_w".to_vec()),
            2 => LinkTarget::Rel(b"outside/canary/dir_ro".to_vec()),
            3 => LinkTarget::Rel(b"outside/canary/dir_0".to_vec()),
            4 => LinkTarget::Abs(b"outside/canary/dir_nx".to_vec()),
            5 => LinkTarget::Rel(sibling),
            6 => LinkTarget::Abs(b"outside".to_vec()),
            7 => LinkTarget::Raw(b"dangling-target".to_vec()),
            8 => LinkTarget::Raw(b".".to_vec()),
            _ => {
                // two-link cycle a -> b, b -> a in the same directory
                let mut a = path.clone();
                a.extend_from_slice(b"_a");
                let mut b = path.clone();
                b.extend_from_slice(b"_b");
                let base = |p: &[u8]| p.rsplit(|c| *c == b'/').next().unwrap_or(p).to_vec();
                return vec![
                    Op::Symlink {
                        layer,
                        path: a.clone(),
                        target: LinkTarget::Raw(base(&b)),
                    },
                    Op::Symlink {
                        layer,
                        path: b,
                        target: LinkTarget::Raw(base(&a)),
                    },
                ];
            }
        };
        vec![Op::Symlink { layer, path, target }]
    }
}

/// Generate one history. The model is advanced alongside so that every generated operation
/// was enabled in the state the model predicts.
pub fn gen_history(seed: u64, class: Class, max_steps: usize) -> (History, Swarm) {
    let sw = swarm(seed, class, max_steps);
    let mut wr = Rng::sub(seed, "world");
    let layers = layer_names(&mut wr, sw.nlayers);
    let mut foreign = Vec::new();
    if wr.chance(1, 2) {
        foreign.push(FileSpec {
            path: b"store.toml".to_vec(),
            data: b"[metadata]\nk = \"v\"\n".to_vec(),
            mode: 0o644,
        });
    }
    if wr.chance(1, 3) {
        foreign.push(FileSpec {
            path: b"launch.sbom.cdx.json".to_vec(),
            data: b"{\"foreign\":true}".to_vec(),
            mode: 0o644,
        });
    }
    if wr.chance(1, 3) {
        foreign.push(FileSpec {
            path: b"foreign.txt".to_vec(),
            data: b"not a layer".to_vec(),
            mode: 0o600,
        });
    }
    let mut history = History {
        layers,
        foreign,
        ops: Vec::new(),
    };
    let mut model = Model::new(b"/ROOT", &history);
    let mut g = Gen {
        r: Rng::sub(seed, "ops"),
        sw: &sw,
        next_id: 0,
    };
    let nl = history.layers.len();
    let mut attempts = 0;
    while history.ops.len() < sw.steps && attempts < sw.steps * 12 {
        attempts += 1;
        let kind = g.r.weighted(&sw.weights);
        let needs_ref = matches!(kind, K_WMETA | K_WENV | K_RENV | K_CYCLE | K_WSBOM | K_WEXECD);
        let live: Vec<usize> = if needs_ref {
            model.refs.iter().copied().collect()
        } else {
            model.live.iter().copied().collect()
        };
        let needs_live = !matches!(kind, K_CACHED | K_UNCACHED | K_HANDLE | K_RESTORE);
        let mut batch: Vec<Op> = Vec::new();
        if needs_live && live.is_empty() {
            let layer = g.r.usize(nl);
            if needs_ref {
                // a struct-API request provides the layer reference the write needs
                let mut sw2 = sw.clone();
                sw2.weights[K_HANDLE] = 0;
                let mut g2 = Gen { r: g.r.clone(), sw: &sw2, next_id: g.next_id };
                batch.push(g2.request(layer, false));
                g.r = g2.r;
                g.next_id = g2.next_id;
            } else {
                batch.push(g.request(layer, false));
            }
        } else {
            let layer = if needs_live { *g.r.pick(&live) } else { g.r.usize(nl) };
            match kind {
                K_CACHED | K_UNCACHED | K_HANDLE => {
                    // bias towards layers that already exist (that is where the state machine is)
                    let layer = if !live.is_empty() && g.r.chance(1, 2) {
                        *g.r.pick(&live)
                    } else {
                        layer
                    };
                    let mut sw2 = sw.clone();
                    sw2.weights[K_CACHED] = u32::from(kind == K_CACHED);
                    sw2.weights[K_UNCACHED] = u32::from(kind == K_UNCACHED);
                    sw2.weights[K_HANDLE] = u32::from(kind == K_HANDLE);
                    let mut g2 = Gen {
                        r: g.r.clone(),
                        sw: &sw2,
                        next_id: g.next_id,
                    };
                    let deleting = class == Class::C11 && g2.r.chance(2, 3);
                    batch.push(g2.request(layer, deleting));
                    g.r = g2.r;
                    g.next_id = g2.next_id;
                }
                K_WMETA => {
                    let k = *g.r.pick(&[MetaKind::Generic, MetaKind::A, MetaKind::B]);
                    batch.push(Op::WriteMetadata {
                        layer,
                        meta: if g.r.chance(1, 10) { MetaVal::Unwritable } else { gen_meta(&mut g.r, k) },
                        older_ref: g.r.chance(1, 3),
                    });
                }
                K_WENV => batch.push(Op::WriteEnv {
                    layer,
                    env: gen_envspec(&mut g.r, &sw),
                }),
                K_RENV => batch.push(Op::ReadEnv {
                    layer,
                    mix: g.r.next_u64(),
                }),
                K_CYCLE => batch.push(Op::EnvCycle {
                    layer,
                    times: 1 + g.r.below(5) as u32,
                }),
                K_WSBOM => batch.push(Op::WriteSboms {
                    layer,
                    sboms: gen_sboms(&mut g.r, &sw),
                }),
                K_WEXECD => {
                    let progs = gen_execd(&mut g.r, sw.errors);
                    if progs.len() >= 2 && progs[0].name != progs[1].name && g.r.chance(1, 4) {
                        // two program names become one file (link), then both are rewritten
                        // with different contents
                        let (from, to) = (progs[0].name.clone(), progs[1].name.clone());
                        let mut again = progs.clone();
                        for (k, pr) in again.iter_mut().enumerate() {
                            pr.source = (pr.source + 1 + k) % EXECD_SOURCES;
                        }
                        batch.push(Op::WriteExecD { layer, progs });
                        batch.push(Op::ExecDAlias { layer, from, to, hard: g.r.bool() });
                        batch.push(Op::WriteExecD { layer, progs: again });
                    } else {
                        let first_source = progs.first().map(|pr| pr.source);
                        batch.push(Op::WriteExecD { layer, progs });
                        // afterwards the buildpack regenerates a source file in place: what was
                        // installed into the layer must not change with it
                        if let Some(idx) = first_source.filter(|i| *i < EXECD_SOURCES && g.r.chance(1, 3)) {
                            batch.push(Op::RewriteSource {
                                idx,
                                data: gen_bytes(&mut g.r, false),
                            });
                        }
                    }
                }
                K_FILE => {
                    let depth = if class == Class::C11 { 6 } else { 3 };
                    let mut file = gen_file(&mut g.r, &sw, depth);
                    match g.r.below(16) {
                        // neighbours whose names merely start like the env directories
                        0 | 1 => {
                            file.path = g.r.pick(&["env.d/10-x.sh", "env.sh", "env.example", "environment/FOO.override", "env.launch.bak/X", "envoy"]).as_bytes().to_vec();
                        }
                        // a stray file where the exec.d directory would be
                        2 => file.path = b"exec.d".to_vec(),
                        // ... or where an env directory would be
                        3 => file.path = g.r.pick(&["env", "env.build", "env.launch"]).as_bytes().to_vec(),
                        _ => {}
                    }
                    let stray_execd = file.path == b"exec.d";
                    batch.push(Op::PlainFile { layer, file });
                    if stray_execd {
                        // ... and the next thing is a program set written next to it (mostly empty)
                        let progs = if g.r.chance(2, 3) { Vec::new() } else { gen_execd(&mut g.r, false) };
                        batch.push(Op::WriteExecD { layer, progs });
                    }
                    if g.r.chance(1, 12) {
                        batch.push(Op::ChmodToml {
                            layer,
                            mode: *g.r.pick(&[0o600, 0o664, 0o444, 0o640]),
                        });
                    }
                    if g.r.chance(1, 12) {
                        batch.push(Op::ChmodLayer {
                            layer,
                            mode: *g.r.pick(&[0o555, 0o500, 0o755, 0o700]),
                        });
                    }
                }
                K_MKDIR => {
                    let depth = if class == Class::C11 { 6 } else { 3 };
                    batch.push(Op::MkDir {
                        layer,
                        path: gen_rel_path(&mut g.r, depth),
                        mode: *g.r.pick(&[0o755, 0o555, 0o666, 0o000, 0o700, 0o311]),
                    });
                }
                K_SYMLINK => batch.extend(g.hostile_link(&model, layer)),
                K_IMPLICIT => batch.push(Op::Implicit {
                    layer,
                    which: g.r.usize(4),
                    kind: *g.r.pick(&PATH_KINDS),
                }),
                K_SPECDIR => {
                    let files = gen_specdir(&mut g.r, &sw);
                    let links = gen_specdir_links(&mut g.r, &files);
                    batch.push(Op::SpecDir { layer, files, links });
                }
                K_TOPLINK => {
                    // immediately followed by a deleting request on that layer
                    let which = g.r.below(5);
                    if which == 4 {
                        batch.push(Op::TomlLink { layer, abs: g.r.bool() });
                    } else if which < 2 {
                        batch.push(Op::TopSymlink {
                            layer,
                            abs: g.r.bool(),
                            sibling: g.r.chance(1, 3),
                        });
                    } else {
                        for _ in 0..1 + g.r.usize(2) {
                            batch.push(Op::SbomLink {
                                layer,
                                format: g.r.usize(3),
                                kind: g.r.below(4) as u8,
                            });
                        }
                    }
                    batch.push(g.request(layer, true));
                }
                _ => batch.push(Op::Restore {
                    kind: *g.r.pick(&sw.restore_kinds),
                }),
            }
        }
        // accept the batch only if every op is enabled in sequence
        let mut trial = model.clone();
        let mut ok = true;
        for op in &batch {
            if !trial.enabled(op) {
                ok = false;
                break;
            }
            trial.apply(op);
        }
        if ok {
            model = trial;
            history.ops.extend(batch);
        }
    }
    (history, sw)
}
