//! The alphabet of an E1 history: layer requests, writes through a layer reference, buildpack
//! author file operations, and the stub lifecycle's restore between builds.

use crate::envmodel::EnvSpec;
use serde::{Deserialize, Serialize};

#[derive(Clone, Copy, Debug, PartialEq, Eq, Serialize, Deserialize, Hash)]
pub enum MetaKind {
    Generic,
    A,
    B,
    /// `{version: String}` that ignores every other key (no deny_unknown_fields): what is on
    /// disk may be wider than what the type carries
    Loose,
}

#[derive(Clone, Debug, PartialEq, Serialize, Deserialize)]
pub enum MetaVal {
    /// GenericMetadata `None`
    Absent,
    Table(toml::Table),
    A { version: String },
    B { version: String, sha: String },
    Loose { version: String },
    /// a value of an author's type that TOML cannot represent (an integer above i64::MAX):
    /// writing it must fail and leave the file as it was
    Unwritable,
}

impl MetaVal {
    /// ser(m): the `[metadata]` table the model expects on disk for this value.
    pub fn table(&self) -> Option<toml::Table> {
        match self {
            MetaVal::Absent | MetaVal::Unwritable => None,
            MetaVal::Table(t) => Some(t.clone()),
            MetaVal::A { version } | MetaVal::Loose { version } => {
                let mut t = toml::Table::new();
                t.insert("version".into(), toml::Value::String(version.clone()));
                Some(t)
            }
            MetaVal::B { version, sha } => {
                let mut t = toml::Table::new();
                t.insert("version".into(), toml::Value::String(version.clone()));
                t.insert("sha".into(), toml::Value::String(sha.clone()));
                Some(t)
            }
        }
    }

    pub fn kind(&self) -> MetaKind {
        match self {
            MetaVal::Absent | MetaVal::Table(_) | MetaVal::Unwritable => MetaKind::Generic,
            MetaVal::A { .. } => MetaKind::A,
            MetaVal::B { .. } => MetaKind::B,
            MetaVal::Loose { .. } => MetaKind::Loose,
        }
    }
}

/// Does the metadata table on disk deserialize as metadata type `kind`? (hand-written, no serde)
pub fn valid(kind: MetaKind, md: &Option<toml::Table>) -> bool {
    let only_strings = |t: &toml::Table, keys: &[&str]| {
        t.len() == keys.len() && keys.iter().all(|k| matches!(t.get(*k), Some(toml::Value::String(_))))
    };
    match (kind, md) {
        (MetaKind::Generic, _) => true,
        (_, None) => false,
        (MetaKind::A, Some(t)) => only_strings(t, &["version"]),
        (MetaKind::B, Some(t)) => only_strings(t, &["version", "sha"]),
        (MetaKind::Loose, Some(t)) => matches!(t.get("version"), Some(toml::Value::String(_))),
    }
}

/// What a callback typed with `kind` can see of the metadata on disk.
pub fn project(kind: MetaKind, md: &Option<toml::Table>) -> Option<toml::Table> {
    match (kind, md) {
        (MetaKind::Loose, Some(t)) => {
            let mut out = toml::Table::new();
            if let Some(v) = t.get("version") {
                out.insert("version".into(), v.clone());
            }
            Some(out)
        }
        _ => md.clone(),
    }
}

/// Typed view of a valid table.
pub fn typed(kind: MetaKind, md: &Option<toml::Table>) -> MetaVal {
    let s = |t: &toml::Table, k: &str| t.get(k).and_then(|v| v.as_str()).unwrap_or("").to_string();
    match (kind, md) {
        (MetaKind::Generic, None) => MetaVal::Absent,
        (MetaKind::Generic, Some(t)) => MetaVal::Table(t.clone()),
        (MetaKind::A, Some(t)) => MetaVal::A { version: s(t, "version") },
        (MetaKind::B, Some(t)) => MetaVal::B {
            version: s(t, "version"),
            sha: s(t, "sha"),
        },
        (MetaKind::Loose, Some(t)) => MetaVal::Loose { version: s(t, "version") },
        _ => MetaVal::Absent,
    }
}

/// How the struct-API callbacks encode their action.
#[derive(Clone, Copy, Debug, PartialEq, Eq, Serialize, Deserialize, Hash)]
pub enum Enc {
    Bare,
    Res,
    Tuple,
    ResTuple,
}

impl Enc {
    pub fn has_cause(self) -> bool {
        matches!(self, Enc::Tuple | Enc::ResTuple)
    }
    pub fn can_err(self) -> bool {
        matches!(self, Enc::Res | Enc::ResTuple)
    }
}

#[derive(Clone, Copy, Debug, PartialEq, Eq, Serialize, Deserialize, Hash)]
pub enum Restored {
    Keep,
    Delete,
    Err,
}

#[derive(Clone, Debug, PartialEq, Serialize, Deserialize)]
pub enum Invalid {
    Delete,
    Replace(MetaVal),
    Err,
}

#[derive(Clone, Copy, Debug, PartialEq, Eq, Serialize, Deserialize, Hash)]
pub enum Strategy {
    Keep,
    Update,
    Recreate,
    Err,
}

#[derive(Clone, Debug, PartialEq, Serialize, Deserialize)]
pub enum Migration {
    Recreate,
    Replace(MetaVal),
    Err,
}

#[derive(Clone, Debug, PartialEq, Serialize, Deserialize)]
pub struct FileSpec {
    #[serde(with = "crate::hexbytes")]
    pub path: Vec<u8>,
    #[serde(with = "crate::hexbytes")]
    pub data: Vec<u8>,
    pub mode: u32,
}

/// a symbolic link (relative, literal target bytes) placed by the harness
#[derive(Clone, Debug, PartialEq, Serialize, Deserialize)]
pub struct LinkSpec {
    #[serde(with = "crate::hexbytes")]
    pub path: Vec<u8>,
    #[serde(with = "crate::hexbytes")]
    pub target: Vec<u8>,
}

#[derive(Clone, Debug, PartialEq, Serialize, Deserialize)]
pub struct SbomSpec {
    /// 0 cdx, 1 spdx, 2 syft
    pub format: u8,
    #[serde(with = "crate::hexbytes")]
    pub data: Vec<u8>,
}

pub const SBOM_EXT: [&str; 3] = ["cdx.json", "spdx.json", "syft.json"];
pub const EXECD_SOURCES: usize = 4;

#[derive(Clone, Debug, PartialEq, Serialize, Deserialize)]
pub struct ExecDSpec {
    pub name: String,
    /// index into execd_src/p<i>; >= EXECD_SOURCES means a source that does not exist
    pub source: usize,
}

/// What a trait-API create/update callback does and returns.
#[derive(Clone, Debug, PartialEq, Serialize, Deserialize)]
pub struct ResSpec {
    pub fail: bool,
    pub meta: MetaVal,
    pub env: Option<EnvSpec>,
    pub execd: Vec<ExecDSpec>,
    pub sboms: Vec<SbomSpec>,
    pub files: Vec<FileSpec>,
}

#[derive(Clone, Copy, Debug, PartialEq, Eq, Serialize, Deserialize, Hash)]
pub enum RestoreKind {
    Normal,
    CacheEvicted,
    Fresh,
    EmptyTomlOmitted,
}

/// Kinds of entry an implicit layer path can be.
#[derive(Clone, Copy, Debug, PartialEq, Eq, Serialize, Deserialize, Hash)]
pub enum PathKind {
    Absent,
    Dir,
    File,
    LinkToDir,
    LinkToFile,
    Dangling,
    /// a symlink that points at itself (resolution fails with ELOOP): not a directory
    LinkLoop,
    /// a symlink whose target lies beneath a regular file (resolution fails with ENOTDIR)
    LinkThroughFile,
}
pub const PATH_KINDS: [PathKind; 8] = [
    PathKind::Absent,
    PathKind::Dir,
    PathKind::File,
    PathKind::LinkToDir,
    PathKind::LinkToFile,
    PathKind::Dangling,
    PathKind::LinkLoop,
    PathKind::LinkThroughFile,
];
pub const IMPLICIT_NAMES: [&str; 4] = ["bin", "lib", "include", "pkgconfig"];

#[derive(Clone, Debug, PartialEq, Serialize, Deserialize)]
pub enum LinkTarget {
    /// a path relative to the world root, written as an absolute target
    Abs(#[serde(with = "crate::hexbytes")] Vec<u8>),
    /// a path relative to the world root, written as a relative target from the link's directory
    Rel(#[serde(with = "crate::hexbytes")] Vec<u8>),
    /// literal target bytes (dangling names, cycles)
    Raw(#[serde(with = "crate::hexbytes")] Vec<u8>),
}

#[derive(Clone, Debug, PartialEq, Serialize, Deserialize)]
pub enum Op {
    Cached {
        id: u32,
        layer: usize,
        build: bool,
        launch: bool,
        kind: MetaKind,
        enc_restored: Enc,
        enc_invalid: Enc,
        restored: Restored,
        invalid: Invalid,
    },
    Uncached {
        id: u32,
        layer: usize,
        build: bool,
        launch: bool,
    },
    Handle {
        id: u32,
        layer: usize,
        build: bool,
        launch: bool,
        cache: bool,
        kind: MetaKind,
        strategy: Strategy,
        migration: Migration,
        result: ResSpec,
        /// `Layer::types()` answers this once a strategy/create/update callback has run (a layer
        /// may learn its types while it is being handled); None = fixed types
        #[serde(default)]
        types_after: Option<(bool, bool, bool)>,
    },
    WriteMetadata {
        layer: usize,
        meta: MetaVal,
        /// use the oldest layer reference this build still holds for the layer, not the latest
        #[serde(default)]
        older_ref: bool,
    },
    WriteEnv { layer: usize, env: EnvSpec },
    ReadEnv { layer: usize, mix: u64 },
    EnvCycle { layer: usize, times: u32 },
    WriteSboms { layer: usize, sboms: Vec<SbomSpec> },
    WriteExecD { layer: usize, progs: Vec<ExecDSpec> },
    /// buildpack author code writes a file (parents created) inside the layer directory
    PlainFile { layer: usize, file: FileSpec },
    MkDir {
        layer: usize,
        #[serde(with = "crate::hexbytes")]
        path: Vec<u8>,
        mode: u32,
    },
    Symlink {
        layer: usize,
        #[serde(with = "crate::hexbytes")]
        path: Vec<u8>,
        target: LinkTarget,
    },
    /// a hard link inside the layer to a file outside it (same inode)
    HardLink {
        layer: usize,
        #[serde(with = "crate::hexbytes")]
        path: Vec<u8>,
        #[serde(with = "crate::hexbytes")]
        to: Vec<u8>,
    },
    /// set <layer>/{bin,lib,include,pkgconfig}[which] to an entry of the given kind
    Implicit { layer: usize, which: usize, kind: PathKind },
    /// the model writes a spec-shaped env directory itself (read side of C03)
    /// `links`: entries that are symbolic links to a sibling process directory or variable file
    /// (the lifecycle opens them by name and so follows them)
    SpecDir {
        layer: usize,
        files: Vec<FileSpec>,
        #[serde(default)]
        links: Vec<LinkSpec>,
    },
    /// C11: <layers>/<name> itself becomes a symlink to the canary directory
    /// `sibling`: the link leads to another layer's directory instead (when there is one)
    TopSymlink {
        layer: usize,
        abs: bool,
        #[serde(default)]
        sibling: bool,
    },
    /// <layers>/<name>.sbom.<format>.json is a symbolic link: 0 dangling, 1 pointing at itself,
    /// 2 to a canary file, 3 to a canary directory (left by an earlier build or by a person)
    SbomLink { layer: usize, format: usize, kind: u8 },
    /// <layers>/<name>.toml becomes a symbolic link to a live, parseable TOML file outside the
    /// layers directory (followed at once by a deleting request)
    TomlLink { layer: usize, abs: bool },
    /// in <layer>/exec.d the program `to` becomes another name of the program `from`
    /// (symbolic link, or hard link to the same inode), as a tool that dedups files leaves it
    ExecDAlias { layer: usize, from: String, to: String, hard: bool },
    /// the layer directory itself gets this mode (e.g. 0555: a write-protected cache)
    ChmodLayer { layer: usize, mode: u32 },
    /// <layers>/<name>.toml gets this mode (restored with the permissions it was stored with)
    ChmodToml { layer: usize, mode: u32 },
    /// <layers>/<name>.toml holds bytes that are not TOML at all (truncated by a crashed
    /// earlier build). Used by C20 scenarios only: whatever a request does with it must not
    /// depend on the process.
    CorruptToml { layer: usize },
    /// the buildpack regenerates one of its exec.d source files in place (same path, new bytes)
    RewriteSource {
        idx: usize,
        #[serde(with = "crate::hexbytes")]
        data: Vec<u8>,
    },
    /// end of build, stub lifecycle restore, start of next build
    Restore { kind: RestoreKind },
}

impl Op {
    pub fn layer(&self) -> Option<usize> {
        match self {
            Op::Cached { layer, .. }
            | Op::Uncached { layer, .. }
            | Op::Handle { layer, .. }
            | Op::WriteMetadata { layer, .. }
            | Op::WriteEnv { layer, .. }
            | Op::ReadEnv { layer, .. }
            | Op::EnvCycle { layer, .. }
            | Op::WriteSboms { layer, .. }
            | Op::WriteExecD { layer, .. }
            | Op::PlainFile { layer, .. }
            | Op::MkDir { layer, .. }
            | Op::Symlink { layer, .. }
            | Op::HardLink { layer, .. }
            | Op::Implicit { layer, .. }
            | Op::SpecDir { layer, .. }
            | Op::TopSymlink { layer, .. }
            | Op::SbomLink { layer, .. }
            | Op::TomlLink { layer, .. }
            | Op::ExecDAlias { layer, .. }
            | Op::ChmodLayer { layer, .. }
            | Op::ChmodToml { layer, .. }
            | Op::CorruptToml { layer } => Some(*layer),
            Op::Restore { .. } | Op::RewriteSource { .. } => None,
        }
    }

    pub fn kind_name(&self) -> &'static str {
        match self {
            Op::Cached { .. } => "Cached",
            Op::Uncached { .. } => "Uncached",
            Op::Handle { .. } => "Handle",
            Op::WriteMetadata { .. } => "WriteMetadata",
            Op::WriteEnv { .. } => "WriteEnv",
            Op::ReadEnv { .. } => "ReadEnv",
            Op::EnvCycle { .. } => "EnvCycle",
            Op::WriteSboms { .. } => "WriteSboms",
            Op::WriteExecD { .. } => "WriteExecD",
            Op::PlainFile { .. } => "PlainFile",
            Op::MkDir { .. } => "MkDir",
            Op::Symlink { .. } => "Symlink",
            Op::HardLink { .. } => "HardLink",
            Op::Implicit { .. } => "Implicit",
            Op::SpecDir { .. } => "SpecDir",
            Op::TopSymlink { .. } => "TopSymlink",
            Op::SbomLink { .. } => "SbomLink",
            Op::TomlLink { .. } => "TomlLink",
            Op::ExecDAlias { .. } => "ExecDAlias",
            Op::ChmodLayer { .. } => "ChmodLayer",
            Op::ChmodToml { .. } => "ChmodToml",
            Op::CorruptToml { .. } => "CorruptToml",
            Op::RewriteSource { .. } => "RewriteSource",
            Op::Restore { .. } => "Restore",
        }
    }

    pub fn is_request(&self) -> bool {
        matches!(self, Op::Cached { .. } | Op::Uncached { .. } | Op::Handle { .. })
    }
}

pub fn cause_restored(id: u32) -> u32 {
    id * 10 + 1
}
pub fn cause_invalid(id: u32) -> u32 {
    id * 10 + 2
}
pub fn err_code(id: u32, site: u32) -> u32 {
    id * 10 + 3 + site
}

/// A generated world: layer names plus the history.
#[derive(Clone, Debug, PartialEq, Serialize, Deserialize)]
pub struct History {
    pub layers: Vec<String>,
    /// foreign entries placed in <layers> before the first build
    pub foreign: Vec<FileSpec>,
    pub ops: Vec<Op>,
}

/// File contents starting with `$LAYER` stand for the layer's own absolute directory (an
/// explicit entry that names the very path an implicit entry would add).
pub fn with_layer_path(f: &FileSpec, layer_abs: &[u8]) -> FileSpec {
    match f.data.strip_prefix(b"$LAYER".as_slice()) {
        Some(rest) => {
            let mut data = layer_abs.to_vec();
            data.extend_from_slice(rest);
            FileSpec { path: f.path.clone(), data, mode: f.mode }
        }
        None => f.clone(),
    }
}
