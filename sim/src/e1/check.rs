//! Runs one E1 history against the real code and the model, step by step, and checks the
//! invariants I-types, I-state, I-restored, I-empty, I-result, I-frame, I-envfiles, I-implicit,
//! I-err after every step.

use super::exec::{LoggedCb, Observed, World};
use super::model::{CbKind, ExpCallback, ExpResult, Expectation, Model, layer_toml_equal};
use super::ops::*;
use crate::envmodel::{EnvMap, EnvModel, ScopeM, probe_envs};
use crate::rng::{hash_str, splitmix64};
use crate::shimapi::{Fault, Shim, Stats};
use crate::snap::{self, Snap, join, show_bytes};
use libcnb::Env;
use libcnb::layer_env::{LayerEnv, Scope};
use serde::{Deserialize, Serialize};
use std::cell::RefCell;
use std::collections::{BTreeMap, BTreeSet};
use std::ffi::OsString;
use std::os::unix::ffi::{OsStrExt, OsStringExt};
use std::path::{Path, PathBuf};

#[derive(Clone, Debug, Serialize, Deserialize)]
pub struct Violation {
    /// properties this violation counts against
    pub properties: Vec<String>,
    pub invariant: String,
    pub step: usize,
    pub op: String,
    pub detail: Vec<String>,
    /// stable shape of the failure (used for minimisation and known-finding matching)
    pub signature: String,
}

#[derive(Clone, Debug, Default, Serialize, Deserialize)]
pub struct RunReport {
    pub violation: Option<Violation>,
    pub harness_error: Option<String>,
    pub steps: usize,
    pub skipped: usize,
    pub libcnb_calls: usize,
    pub transitions: Vec<String>,
    pub probes: BTreeMap<String, u64>,
    pub shape: u64,
    pub nontrivial: bool,
    pub fs_calls: i64,
    pub short_rw: i64,
    pub eintr: i64,
    pub readdir_perms: i64,
    pub per_kind: BTreeMap<String, i64>,
    /// complete event log (ops, results, shim counters) for the determinism self-test
    pub event_log: Vec<String>,
    /// iteration order of a fixed 8-key HashMap created on the run thread (proves that the
    /// simulator, not the OS, chose this run's hash keys)
    pub hash_order: u64,
}

#[derive(Clone, Debug)]
pub struct RunCfg {
    pub root: PathBuf,
    pub seed: u64,
    /// inject short reads/writes and EINTR (legal-but-rare outcomes) into libcnb's calls
    pub chaos: bool,
    /// permute directory iteration order
    pub rd_perm: bool,
    pub keep_event_log: bool,
    /// one hard I/O error in the middle of the history: (n-th libcnb-calling step, k-th matching
    /// libc call of that step, errno). The history then continues: recovery is part of the run.
    pub hard_fault: Option<(usize, i64, i32)>,
}

const IMPLICIT_VARS: [&str; 5] = ["PATH", "LD_LIBRARY_PATH", "LIBRARY_PATH", "CPATH", "PKG_CONFIG_PATH"];

fn to_env(m: &EnvMap) -> Env {
    let mut e = Env::new();
    for (k, v) in m {
        e.insert(OsString::from_vec(k.clone()), OsString::from_vec(v.clone()));
    }
    e
}

fn from_env(e: &Env) -> EnvMap {
    e.iter()
        .map(|(k, v)| (k.as_bytes().to_vec(), v.as_bytes().to_vec()))
        .collect()
}

fn to_scope(s: &ScopeM) -> Scope {
    match s {
        ScopeM::All => Scope::All,
        ScopeM::Build => Scope::Build,
        ScopeM::Launch => Scope::Launch,
        ScopeM::Process(p) => Scope::Process(p.clone()),
    }
}

/// Behavioural comparison of a real layer environment with the model's: every scope, probe
/// start environments with unset / empty / set values. Returns (differences, only_implicit).
pub fn env_diff(real: &LayerEnv, model: &EnvModel, mix: u64, layer_abs: &[u8]) -> (Vec<String>, bool) {
    let mut names = model.names();
    for v in IMPLICIT_VARS {
        names.push(v.as_bytes().to_vec());
    }
    names.sort();
    names.dedup();
    let mut probes = probe_envs(&names, mix);
    if !layer_abs.is_empty() {
        // start environments that already name the layer's own directories (e.g. the result of an
        // earlier apply of the same layer): the implicit entries are prepended regardless
        let own = |sub: &str| {
            let mut v = layer_abs.to_vec();
            v.extend_from_slice(sub.as_bytes());
            v
        };
        let mut exact = EnvMap::new();
        let mut leading = EnvMap::new();
        for (var, sub) in [("PATH", "/bin"), ("LD_LIBRARY_PATH", "/lib"), ("LIBRARY_PATH", "/lib"), ("CPATH", "/include"), ("PKG_CONFIG_PATH", "/pkgconfig")] {
            exact.insert(var.as_bytes().to_vec(), own(sub));
            let mut l = own(sub);
            l.extend_from_slice(b":/usr/local/x");
            leading.insert(var.as_bytes().to_vec(), l);
        }
        probes.push(exact);
        probes.push(leading);
    }
    let mut scopes = model.scopes();
    for p in ["web", "worker", "a.b", "web.override"] {
        let s = ScopeM::Process(p.to_string());
        if !scopes.contains(&s) {
            scopes.push(s);
        }
    }
    let mut out = Vec::new();
    let mut only_implicit = true;
    for scope in &scopes {
        for (pi, start) in probes.iter().enumerate() {
            let got = from_env(&real.apply(to_scope(scope), &to_env(start)));
            let want = model.apply(scope, start);
            if got != want {
                let keys: BTreeSet<&Vec<u8>> = got.keys().chain(want.keys()).collect();
                for k in keys {
                    if got.get(k) != want.get(k) {
                        let implicit_var = IMPLICIT_VARS.iter().any(|v| v.as_bytes() == k.as_slice());
                        let implicit_scope = matches!(scope, ScopeM::Build | ScopeM::Launch);
                        // does the difference involve an implicit layer path entry? (value of an
                        // implicit variable, in build/launch scope, naming <layer>/{bin,lib,…})
                        let names_layer_path = |v: Option<&Vec<u8>>| {
                            v.is_some_and(|v| {
                                ["/bin", "/lib", "/include", "/pkgconfig"].iter().any(|suffix| {
                                    let mut needle = layer_abs.to_vec();
                                    needle.extend_from_slice(suffix.as_bytes());
                                    !layer_abs.is_empty()
                                        && v.windows(needle.len()).any(|w| w == needle.as_slice())
                                })
                            })
                        };
                        // (an implicit entry showing up in a scope where none belongs is the
                        // "and for no other scope" half of the same statement)
                        let _ = implicit_scope;
                        let explained = implicit_var && (names_layer_path(got.get(k)) || names_layer_path(want.get(k)));
                        if !explained {
                            only_implicit = false;
                        }
                        if out.len() < 8 {
                            out.push(format!(
                                "scope {scope:?} probe#{pi} var {}: real {:?} model {:?}",
                                show_bytes(k, 40),
                                got.get(k).map(|v| show_bytes(v, 60)),
                                want.get(k).map(|v| show_bytes(v, 60)),
                            ));
                        }
                    }
                }
            }
        }
    }
    let only = !out.is_empty() && only_implicit;
    (out, only)
}

fn api_property(op: &Op) -> &'static str {
    match op {
        Op::Cached { .. }
        | Op::Uncached { .. }
        | Op::WriteMetadata { .. }
        | Op::WriteSboms { .. }
        | Op::WriteExecD { .. } => "C01",
        Op::Handle { .. } => "C02",
        Op::WriteEnv { .. } | Op::ReadEnv { .. } | Op::SpecDir { .. } => "C03",
        Op::EnvCycle { .. } => "C10",
        _ => "HARNESS",
    }
}

pub fn owns(model: &Model, layer: usize, path: &[u8]) -> bool {
    let d = model.ldir(layer);
    if path == d.as_slice() || (path.starts_with(&d) && path.get(d.len()) == Some(&b'/')) {
        return true;
    }
    if path == model.ltoml(layer).as_slice() {
        return true;
    }
    (0..3).any(|f| path == model.lsbom(layer, f).as_slice())
}

pub fn strip_layer(model: &Model, layer: usize, s: &Snap) -> Snap {
    Snap {
        nodes: s
            .nodes
            .iter()
            .filter(|(k, _)| !owns(model, layer, k))
            .map(|(k, v)| (k.clone(), v.clone()))
            .collect(),
    }
}

fn normalise_line(model: &Model, line: &str) -> String {
    // replace concrete layer names and long payloads so that signatures are shape-only
    let mut s = line.to_string();
    for l in &model.layers {
        for ext in SBOM_EXT {
            s = s.replace(&format!("layers/{l}.sbom.{ext}"), "layers/<L>.sbom.*");
        }
        s = s.replace(&format!("layers/{l}.toml"), "layers/<L>.toml");
        s = s.replace(&format!("layers/{l}/"), "layers/<L>/");
        s = s.replace(&format!("layers/{l}:"), "layers/<L>:");
    }
    // keep "kind path" only
    let mut parts = s.splitn(3, ' ');
    let kind = parts.next().unwrap_or("");
    let path = parts.next().unwrap_or("").trim_end_matches(':');
    let path: String = path
        .split('/')
        .enumerate()
        .map(|(i, c)| if i >= 3 { "*" } else { c })
        .collect::<Vec<_>>()
        .join("/");
    format!("{kind} {path}")
}

struct Ctx<'a> {
    shim: &'a Shim,
    cfg: &'a RunCfg,
    report: RunReport,
}

impl Ctx<'_> {
    fn with_shim<T>(&mut self, step: usize, fault: &Fault, f: impl FnOnce() -> T) -> (T, Stats) {
        let rdseed = if self.cfg.rd_perm {
            splitmix64(self.cfg.seed ^ 0x7d ^ (step as u64) << 8) | 1
        } else {
            0
        };
        let (cs, cr) = if self.cfg.chaos {
            (splitmix64(self.cfg.seed ^ 0xc4a05 ^ (step as u64) << 8) | 1, 5)
        } else {
            (0, 0)
        };
        self.shim.begin(&self.cfg.root, fault, rdseed, cs, cr);
        let r = f();
        let st = self.shim.end();
        self.report.fs_calls += st.matched;
        self.report.short_rw += st.short_writes;
        self.report.eintr += st.eintrs;
        self.report.readdir_perms += st.readdir_perms;
        for (k, v) in &st.per_kind {
            if *v > 0 {
                *self.report.per_kind.entry(k.clone()).or_insert(0) += v;
            }
        }
        (r, st)
    }
}

fn probe(report: &mut RunReport, name: &str) {
    *report.probes.entry(name.to_string()).or_insert(0) += 1;
}

fn check_callbacks(
    op: &Op,
    model_before: &Model,
    exp: &Expectation,
    log: &[LoggedCb],
    root: &Path,
    mix: u64,
) -> Option<(String, Vec<String>)> {
    let is_trait = matches!(op, Op::Handle { .. });
    let layer = op.layer()?;
    let abs_layer = root.join("layers").join(&model_before.layers[layer]);
    // every logged call must be one the decisions of the model's flow explain
    for l in log {
        let matching: Vec<&ExpCallback> = exp
            .callbacks
            .iter()
            .filter(|e| e.kind == l.kind && (matches!(l.kind, CbKind::Create) || e.md == l.md))
            .collect();
        if matching.is_empty() {
            return Some((
                if is_trait { "I-callbacks".into() } else { "I-state".into() },
                vec![format!(
                    "callback {:?} was invoked with metadata {:?}; the model's flow allows {:?}",
                    l.kind,
                    l.md,
                    exp.callbacks.iter().map(|e| (e.kind, e.md.clone())).collect::<Vec<_>>()
                )],
            ));
        }
        if let Some(p) = &l.path {
            if *p != abs_layer {
                return Some((
                    "I-callbacks".into(),
                    vec![format!("callback {:?} got path {p:?}, the layer is {abs_layer:?}", l.kind)],
                ));
            }
        }
        if let Some(n) = &l.name {
            if *n != model_before.layers[layer] {
                return Some((
                    "I-callbacks".into(),
                    vec![format!("callback {:?} got layer name {n:?}", l.kind)],
                ));
            }
        }
        if let (Some(real_env), Some(e)) = (&l.env, matching.iter().find_map(|e| e.env.as_ref())) {
            let (d, _) = env_diff(real_env, e, mix, abs_layer.as_os_str().as_bytes());
            if !d.is_empty() {
                return Some((
                    "I-callbacks".into(),
                    std::iter::once(format!("callback {:?} saw a different layer environment", l.kind))
                        .chain(d)
                        .collect(),
                ));
            }
        }
        // restored / strategy / update callbacks decide on the layer's content: they must find the
        // directory exactly as the previous build (and the restore) left it
        if let Some(found) = &l.dir {
            if !model_before.top_is_symlink(layer) {
                let want = model_before.snap.subtree(&model_before.ldir(layer));
                // a migration may have rewritten the env files (same environment); compare the rest
                let strip_env = |s: &Snap| Snap {
                    nodes: s
                        .nodes
                        .iter()
                        .filter(|(k, _)| !(k.starts_with(b"env/") || k.starts_with(b"env.build") || k.starts_with(b"env.launch") || k.as_slice() == b"env"))
                        .map(|(k, v)| (k.clone(), v.clone()))
                        .collect(),
                };
                if strip_env(found) != strip_env(&want) {
                    let lines = snap::diff(&strip_env(&want), &strip_env(found), &|_, _, _| None, &[]);
                    return Some((
                        "I-callbacks".into(),
                        std::iter::once(format!("callback {:?} did not find the layer directory as the previous build left it:", l.kind))
                            .chain(lines.into_iter().take(6))
                            .collect(),
                    ));
                }
            }
        }
        if l.kind == CbKind::Create {
            if let Some(listing) = &l.listing {
                if !listing.is_empty() {
                    return Some((
                        "I-callbacks".into(),
                        vec![format!("create was handed a non-empty directory: {listing:?}")],
                    ));
                }
            }
        }
    }
    if is_trait {
        for k in [CbKind::Create, CbKind::Update] {
            let want = exp.callbacks.iter().filter(|e| e.kind == k).count();
            let got = log.iter().filter(|l| l.kind == k).count();
            if want != got {
                return Some((
                    "I-callbacks".into(),
                    vec![format!("{k:?} ran {got} time(s), due {want} time(s)")],
                ));
            }
        }
        // the decision callbacks must have been consulted when the model's flow needs them
        for k in [CbKind::Strategy, CbKind::Migration] {
            let want = exp.callbacks.iter().any(|e| e.kind == k);
            let got = log.iter().any(|l| l.kind == k);
            if want && !got && !matches!(exp.result, ExpResult::ErrOther) {
                return Some((
                    "I-callbacks".into(),
                    vec![format!("{k:?} callback was never consulted although its decision was due")],
                ));
            }
        }
    }
    None
}

/// Execute `history` step by step. `fault_step` optionally arms a hard fault for one step
/// (C12); the returned report then carries the fault outcome in `event_log`.
/// Development aid: `VERIF_E1_TRACE=1` prints every executed operation to stderr.
fn trace_on() -> bool {
    static ON: std::sync::OnceLock<bool> = std::sync::OnceLock::new();
    *ON.get_or_init(|| std::env::var_os("VERIF_E1_TRACE").is_some())
}

pub fn run_history(history: &History, cfg: &RunCfg, shim: &Shim) -> RunReport {
    let root_abs = cfg.root.as_os_str().as_bytes().to_vec();
    let mut model = Model::new(&root_abs, history);
    let mut ctx = Ctx {
        shim,
        cfg,
        report: RunReport::default(),
    };
    let mut world = match World::create(&cfg.root, &model.snap, &history.layers) {
        Ok(w) => w,
        Err(e) => {
            ctx.report.harness_error = Some(format!("cannot create world: {e}"));
            return ctx.report;
        }
    };
    let mut shape: u64 = 0;
    let mut restored_seen = false;
    {
        let m: std::collections::HashMap<u32, ()> = (0..8).map(|k| (k, ())).collect();
        let order: Vec<u32> = m.keys().copied().collect();
        ctx.report.hash_order = order.iter().fold(0u64, |h, k| h * 8 + u64::from(*k));
        if cfg.keep_event_log {
            ctx.report.event_log.push(format!("hash-order {order:?}"));
        }
    }

    for (step, op) in history.ops.iter().enumerate() {
        crate::watchdog::tick();
        if !model.enabled(op) {
            ctx.report.skipped += 1;
            if cfg.keep_event_log {
                ctx.report.event_log.push(format!("{step} SKIP {}", op.kind_name()));
            }
            continue;
        }
        ctx.report.steps += 1;
        if trace_on() {
            eprintln!("TRACE {step} {op:?}");
        }
        let model_before = model.clone();
        let exp = model.apply(op);
        let log: RefCell<Vec<LoggedCb>> = RefCell::new(Vec::new());
        let calls_libcnb = !matches!(exp.result, ExpResult::NoCall);
        let mut exp = exp;
        let (obs, st) = if calls_libcnb {
            ctx.report.libcnb_calls += 1;
            let fault = match cfg.hard_fault {
                Some((ordinal, k, errno)) if ordinal == ctx.report.libcnb_calls => Fault {
                    at: k,
                    errno,
                    mode: crate::shimapi::MODE_ERROR,
                },
                _ => Fault::none(),
            };
            let armed = fault.at > 0;
            if armed {
                super::exec::FAULT_MODE.store(true, std::sync::atomic::Ordering::SeqCst);
            }
            let w = &mut world;
            let m = &model;
            let l = &log;
            let out = ctx.with_shim(step, &fault, move || w.exec(op, m, l));
            if armed {
                super::exec::FAULT_MODE.store(false, std::sync::atomic::Ordering::SeqCst);
            }
            out
        } else {
            (world.exec(op, &model, &log), Stats::default())
        };
        let mut log = log.into_inner();
        let fault_fired_err = st.fired && !obs.is_ok();
        if st.fired {
            probe(&mut ctx.report, "mid_history_fault_fired");
            if fault_fired_err {
                // the failed call is reported (C12); what it leaves in the requested layer is open,
                // everything else and every later step are judged as usual
                probe(&mut ctx.report, "mid_history_fault_reported_as_error");
                exp.unconstrained = op.layer();
                exp.result = match &obs {
                    Observed::ErrBuildpack(c) => ExpResult::ErrBuildpack(*c),
                    _ => ExpResult::ErrOther,
                };
                log.clear();
                exp.callbacks.clear();
                // a request that failed holds no layer reference
                if let Some(l) = op.layer() {
                    if op.is_request() {
                        model.live.remove(&l);
                        model.refs.remove(&l);
                    }
                }
            }
        }
        let actual = match world.snapshot() {
            Ok(s) => s,
            Err(e) => {
                ctx.report.harness_error = Some(format!("snapshot failed: {e}"));
                return ctx.report;
            }
        };
        if cfg.keep_event_log {
            ctx.report.event_log.push(format!(
                "{step} {} -> {} | cb={:?} | fs={} kinds={:?} | snap={:016x}",
                op.kind_name(),
                scrub(&obs.tag(), &cfg.root),
                log.iter().map(|l| l.kind).collect::<Vec<_>>(),
                st.matched,
                st.per_kind.iter().filter(|(_, v)| *v > 0).collect::<Vec<_>>(),
                snap_hash(&actual, &cfg.root)
            ));
        }
        if matches!(op, Op::Restore { .. }) {
            restored_seen = true;
        }

        // ---- coverage bookkeeping
        if op.is_request() {
            ctx.report.transitions.push(format!(
                "{}|{}|{}|{}",
                exp.pre_class,
                op.kind_name(),
                exp.path,
                match &obs {
                    Observed::StructOk(r) => format!("{r:?}").split('{').next().unwrap_or("").trim().to_string(),
                    Observed::TraitOk { .. } => "ok".into(),
                    Observed::ErrBuildpack(_) => "err-bp".into(),
                    Observed::ErrOther(_) => "err-other".into(),
                    _ => "other".into(),
                }
            ));
            if restored_seen && !exp.pre_class.starts_with("absent") {
                ctx.report.nontrivial = true;
            }
            if exp.pre_class.contains("toplink") {
                probe(&mut ctx.report, "request_on_symlinked_layer_path");
            }
            if exp.pre_class.starts_with("toml-only") {
                probe(&mut ctx.report, "request_on_toml_without_dir");
            }
            if exp.pre_class.starts_with("dir-only") {
                probe(&mut ctx.report, "request_on_dir_without_toml");
            }
            if exp.pre_class.contains("/sbom1/") && exp.path.contains("delete") {
                probe(&mut ctx.report, "delete_with_sbom_present");
            }
            if exp.pre_class.ends_with("proc") {
                probe(&mut ctx.report, "request_on_layer_with_process_env");
            }
            if exp.path.starts_with("replace>") || exp.path.starts_with("mig-replace>") {
                probe(&mut ctx.report, "metadata_replaced_then_revalidated");
            }
        }
        shape = splitmix64(shape ^ hash_str(op.kind_name()) ^ hash_str(&exp.path) ^ hash_str(&obs.tag()));

        // ---- result
        let layer = op.layer();
        let mix = splitmix64(cfg.seed ^ step as u64);
        let mut viol: Option<(Vec<String>, String, Vec<String>)> = None; // (properties, invariant, detail)
        let api = api_property(op);
        let toplink = exp.pre_class.contains("toplink");
        let result_props = |default: &str| -> Vec<String> {
            if toplink {
                vec!["C11".to_string()]
            } else {
                vec![default.to_string()]
            }
        };
        match (&exp.result, &obs) {
            (ExpResult::NoCall, Observed::NoCall) => {}
            (ExpResult::StructOk(want), Observed::StructOk(got)) => {
                if want != got {
                    viol = Some((
                        result_props(api),
                        "I-state".into(),
                        vec![format!("reported state {got:?}, callbacks decided {want:?}")],
                    ));
                }
            }
            (
                ExpResult::TraitOk { types, meta, env },
                Observed::TraitOk {
                    name,
                    path,
                    types: got_types,
                    meta: got_meta,
                    env: got_env,
                },
            ) => {
                let l = layer.unwrap_or(0);
                let mut d = Vec::new();
                if *name != model.layers[l] {
                    d.push(format!("returned name {name:?}"));
                }
                if *path != cfg.root.join("layers").join(&model.layers[l]) {
                    d.push(format!("returned path {path:?}"));
                }
                if *got_types != Some(*types) {
                    d.push(format!("returned types {got_types:?}, requested {types:?}"));
                }
                if got_meta != meta {
                    d.push(format!("returned metadata {got_meta:?}, on disk {meta:?}"));
                }
                let (ed, only_implicit) = env_diff(got_env, env, mix, &model.abs(&model.ldir(l)));
                let env_only = d.is_empty();
                if !ed.is_empty() {
                    d.push("returned environment differs from what is on disk".into());
                    d.extend(ed);
                }
                if !d.is_empty() {
                    let mut props = result_props("C02");
                    // the environment a request returns is a read of the layer's environment:
                    // missing or wrong implicit entries there also count against C10
                    if env_only && only_implicit && !props.contains(&"C10".to_string()) {
                        props.push("C10".into());
                    }
                    viol = Some((props, "I-result".into(), d));
                }
            }
            (ExpResult::EnvRead(want), Observed::EnvRead(got)) => {
                let (d, only_implicit) = env_diff(got, want, mix, &model.abs(&model.ldir(layer.unwrap_or(0))));
                if !d.is_empty() {
                    let p = if only_implicit { "C10" } else { "C03" };
                    let inv = if only_implicit { "I-implicit" } else { "I-envfiles" };
                    viol = Some((vec![p.to_string()], inv.into(), d));
                }
            }
            (ExpResult::UnitOk, Observed::UnitOk) => {}
            (ExpResult::ErrBuildpack(want), Observed::ErrBuildpack(got)) => {
                if want != got {
                    viol = Some((
                        result_props(api),
                        "I-err".into(),
                        vec![format!("buildpack error {got} surfaced, the callback returned {want}")],
                    ));
                }
            }
            (ExpResult::ErrOther, Observed::ErrOther(_)) => {
                probe(&mut ctx.report, "non_buildpack_error_expected_and_seen");
            }
            (want, got) => {
                let inv = match want {
                    ExpResult::ErrBuildpack(_) => "I-err",
                    ExpResult::TraitOk { .. } => "I-result",
                    ExpResult::EnvRead(_) => "I-envfiles",
                    ExpResult::UnitOk => "I-write",
                    _ => "I-state",
                };
                if matches!(want, ExpResult::NoCall) || matches!(got, Observed::NoCall | Observed::Skipped) {
                    ctx.report.harness_error =
                        Some(format!("step {step}: harness/model disagree on a harness-side op"));
                    return ctx.report;
                }
                viol = Some((
                    result_props(api),
                    inv.into(),
                    vec![format!("call returned {}, expected {}", obs.tag(), exp_tag(want))],
                ));
            }
        }

        // ---- callbacks
        if viol.is_none() && op.is_request() {
            if let Some((inv, d)) = check_callbacks(op, &model_before, &exp, &log, &cfg.root, mix) {
                viol = Some((result_props(api), inv, d));
            }
        }

        // ---- durable state
        let (exp_snap, act_snap) = match exp.unconstrained {
            Some(l) => (strip_layer(&model, l, &model.snap), strip_layer(&model, l, &actual)),
            None => (model.snap.clone(), actual.clone()),
        };
        let layers = model.layers.clone();
        let semantic = |path: &[u8], a: &[u8], b: &[u8]| -> Option<bool> {
            for l in &layers {
                if path == format!("layers/{l}.toml").as_bytes() {
                    return Some(layer_toml_equal(a, b));
                }
            }
            // the file a linked <name>.toml leads to is written like any layer TOML
            if path == b"outside/canary/layer.toml" {
                return Some(layer_toml_equal(a, b));
            }
            None
        };
        let mut ignore_modes: Vec<Vec<u8>> = Vec::new();
        for (i, _) in model.layers.iter().enumerate() {
            ignore_modes.push(model.ltoml(i));
            for f in 0..3 {
                ignore_modes.push(model.lsbom(i, f));
            }
            for d in ["env", "env.build", "env.launch"] {
                ignore_modes.push(join(&model.ldir(i), d.as_bytes()));
            }
        }
        let lines = snap::diff(&exp_snap, &act_snap, &semantic, &ignore_modes);
        let deleting = exp.path.contains("delete") || exp.path.contains("recreate");
        let (own, frame): (Vec<&String>, Vec<&String>) = lines.iter().partition(|l| {
            let path_part = l.splitn(3, ' ').nth(1).unwrap_or("");
            let path_part = path_part.trim_end_matches(':');
            layer.is_some_and(|li| owns(&model, li, path_part.as_bytes()))
        });
        if let Some((props, _inv, detail)) = viol.as_mut() {
            // a wrong result together with damage outside the layer: report the damage too
            if !frame.is_empty() && calls_libcnb {
                if deleting && !props.contains(&"C11".to_string()) {
                    props.push("C11".into());
                }
                detail.extend(frame.iter().map(|s| (*s).clone()));
            }
        } else if !lines.is_empty() {
            let aliased = matches!(op, Op::RewriteSource { .. });
            if !calls_libcnb && !aliased {
                ctx.report.harness_error = Some(format!(
                    "step {step} ({}): harness-side mutation differs from the model: {:?}",
                    op.kind_name(),
                    &lines[..lines.len().min(4)]
                ));
                return ctx.report;
            }
            let mut props: BTreeSet<String> = BTreeSet::new();
            let inv;
            if !frame.is_empty() {
                inv = "I-frame";
                if deleting {
                    props.insert("C11".into());
                }
                if !toplink {
                    props.insert(match op {
                        Op::EnvCycle { .. } | Op::WriteEnv { .. } => "C03".into(),
                        _ => api.to_string(),
                    });
                }
            } else {
                inv = match (&exp.result, op) {
                    (ExpResult::StructOk(super::model::Reported::Restored { .. }), _) => "I-restored",
                    (ExpResult::StructOk(_), _) => "I-empty",
                    (ExpResult::TraitOk { .. }, _) => "I-result",
                    (_, Op::WriteEnv { .. }) => "I-envfiles",
                    (_, Op::EnvCycle { .. }) => "I-implicit",
                    _ => "I-write",
                };
                props.insert(api.to_string());
                // the environment's on-disk layout is C03's subject whichever API wrote it
                let env_lines = own.iter().any(|l| {
                    let path = l.splitn(3, ' ').nth(1).unwrap_or("");
                    path.contains("/env/") || path.contains("/env.build") || path.contains("/env.launch") || path.ends_with("/env:") || path.ends_with("/env")
                });
                if env_lines && matches!(op, Op::Handle { .. }) {
                    props.insert("C03".into());
                }
                let leftovers = own.iter().any(|l| l.starts_with("unexpected"));
                if deleting && leftovers {
                    props.insert("C11".into());
                }
                if matches!(op, Op::EnvCycle { .. }) {
                    props.insert("C10".into());
                }
            }
            viol = Some((props.into_iter().collect(), inv.into(), lines.clone()));
            if aliased {
                // the buildpack rewrote its own source file and something in <layers> changed
                // with it: a layer file shares storage with a file outside the layers directory
                viol = Some((
                    vec!["C01".into(), "C02".into()],
                    "I-alias".into(),
                    std::iter::once("a file outside <layers> was rewritten in place and the layers directory changed with it:".to_string())
                        .chain(lines.iter().take(6).cloned())
                        .collect(),
                ));
            }
        }

        // a violation in the very step whose call was faulted (and yet returned Ok) is C12's subject
        if st.fired && !fault_fired_err {
            if let Some((props, _, _)) = viol.as_mut() {
                *props = vec!["C12".to_string()];
            }
        }
        // a wrong environment on disk after a trait-API request also counts against C03
        let env_on_disk_wrong = matches!(op, Op::Handle { .. })
            && own.iter().any(|l| {
                let path = l.splitn(3, ' ').nth(1).unwrap_or("").trim_end_matches(':');
                path.contains("/env/") || path.contains("/env.build") || path.contains("/env.launch") || path.ends_with("/env")
            });
        if let Some((props, _, detail)) = viol.as_mut() {
            if env_on_disk_wrong && !props.contains(&"C03".to_string()) {
                props.push("C03".into());
                for l in &own {
                    if !detail.contains(*l) {
                        detail.push((*l).clone());
                    }
                }
            }
        }
        if let Some((properties, invariant, detail)) = viol {
            let detail: Vec<String> = detail.iter().map(|l| scrub(l, &cfg.root)).collect();
            let mut sig_lines: Vec<String> = detail
                .iter()
                .filter(|l| l.starts_with("missing") || l.starts_with("unexpected") || l.starts_with("differs"))
                .map(|l| normalise_line(&model, l))
                .collect();
            sig_lines.sort();
            sig_lines.dedup();
            sig_lines.truncate(6);
            if sig_lines.is_empty() {
                // no tree difference: the shape is the (digit-free) first line of the detail
                let first: String = detail
                    .first()
                    .map(|l| {
                        // env differences: keep scope and variable, drop the values
                        let l = l.split(": real ").next().unwrap_or(l);
                        l.chars().filter(|c| !c.is_ascii_digit()).take(110).collect()
                    })
                    .unwrap_or_default();
                sig_lines.push(first);
            }
            let signature = format!("{invariant}:{}:{}", op.kind_name(), sig_lines.join(";"));
            ctx.report.violation = Some(Violation {
                properties,
                invariant,
                step,
                op: format!("{op:?}"),
                detail: detail.into_iter().take(12).collect(),
                signature,
            });
            ctx.report.shape = shape;
            return ctx.report;
        }

        // ---- re-synchronise what the statements leave open
        if let Some(l) = exp.unconstrained {
            let mut s = strip_layer(&model, l, &model.snap);
            for (k, v) in &actual.nodes {
                if owns(&model, l, k) {
                    s.nodes.insert(k.clone(), v.clone());
                }
            }
            model.snap = s;
            probe(&mut ctx.report, "layer_resynchronised_after_error");
        }
    }
    ctx.report.shape = shape;
    // leave nothing behind
    let _ = snap::wipe(&cfg.root);
    ctx.report
}

/// Make a message independent of where the simulated world lives.
fn scrub(s: &str, root: &Path) -> String {
    s.replace(&root.display().to_string(), "$ROOT")
}

fn exp_tag(e: &ExpResult) -> String {
    match e {
        ExpResult::NoCall => "nocall".into(),
        ExpResult::StructOk(r) => format!("{r:?}"),
        ExpResult::TraitOk { .. } => "trait-ok".into(),
        ExpResult::EnvRead(_) => "env-read".into(),
        ExpResult::UnitOk => "ok".into(),
        ExpResult::ErrBuildpack(c) => format!("err-buildpack({c})"),
        ExpResult::ErrOther => "err-other".into(),
    }
}

pub fn snap_hash(s: &Snap, root: &Path) -> u64 {
    // The event log must not depend on where the world lives: the root's text is scrubbed from
    // link targets and from file contents (an env value may hold a layer path), and sizes are
    // taken after scrubbing (scratch directory names differ in length between workers).
    let rootb = root.as_os_str().as_bytes();
    let mut h: u64 = 0;
    for (k, v) in &s.nodes {
        h = splitmix64(h ^ crate::rng::hash_bytes(k));
        match v {
            crate::snap::Node::File { data, mode } if !rootb.is_empty() && data.windows(rootb.len()).any(|w| w == rootb) => {
                let mut scrubbed = Vec::with_capacity(data.len());
                let mut i = 0;
                while i < data.len() {
                    if data[i..].starts_with(rootb) {
                        scrubbed.extend_from_slice(b"$ROOT");
                        i += rootb.len();
                    } else {
                        scrubbed.push(data[i]);
                        i += 1;
                    }
                }
                let node = crate::snap::Node::File { data: scrubbed, mode: *mode };
                h = splitmix64(h ^ hash_str(&node.describe()));
                if let crate::snap::Node::File { data, .. } = &node {
                    h = splitmix64(h ^ crate::rng::hash_bytes(data));
                }
            }
            _ => {
                h = splitmix64(h ^ hash_str(&scrub(&v.describe(), root)));
                if let crate::snap::Node::File { data, .. } = v {
                    h = splitmix64(h ^ crate::rng::hash_bytes(data));
                }
            }
        }
    }
    h
}
