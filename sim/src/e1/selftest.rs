//! Determinism self-test (filled in below).
pub fn run(_args: &[String]) -> i32 {
    2
}
