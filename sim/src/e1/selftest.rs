//! Determinism self-test: the same seeds executed in different worker processes and under
//! different partitions must produce byte-identical event logs (compared by hash).

use super::WorkerSummary;
use super::generate::Class;
use crate::pool::{self, PoolError};
use std::collections::BTreeMap;

fn collect(class: Class, n: u64, parts: usize, tag: &str) -> Result<BTreeMap<u64, u64>, String> {
    let mut argvs = Vec::new();
    for (k, (from, to)) in pool::ranges(n, parts).into_iter().enumerate() {
        argvs.push(
            [
                "worker", "e1", "--class", &format!("{class:?}"), "--from", &from.to_string(), "--to",
                &to.to_string(), "--tier", "quick", "--props", "none", "--id", &format!("{tag}{k}"), "--eventlog",
            ]
            .iter()
            .map(|s| (*s).to_string())
            .collect(),
        );
    }
    let res: Vec<WorkerSummary> = pool::run_workers(argvs, true).map_err(|PoolError::Harness(e)| e)?;
    let mut m = BTreeMap::new();
    for r in res {
        if let Some(e) = r.harness_errors.first() {
            return Err(e.clone());
        }
        for (i, h) in r.event_hashes {
            m.insert(i, h);
        }
    }
    Ok(m)
}

/// Returns the number of runs compared, or an error describing the first divergence.
pub fn compare(class: Class, n: u64, parts_a: usize, parts_b: usize) -> Result<u64, String> {
    let a = collect(class, n, parts_a, "da")?;
    let b = collect(class, n, parts_b, "db")?;
    if a.len() as u64 != n || b.len() as u64 != n {
        return Err(format!("expected {n} event logs, got {} and {}", a.len(), b.len()));
    }
    for (i, h) in &a {
        if b.get(i) != Some(h) {
            return Err(format!("event log of run {i} of class {class:?} differs between two executions"));
        }
    }
    Ok(n)
}

pub fn run(args: &[String]) -> i32 {
    let n: u64 = args
        .iter()
        .position(|a| a == "--runs")
        .and_then(|i| args.get(i + 1))
        .and_then(|s| s.parse().ok())
        .unwrap_or(2000);
    let mut total = 0;
    for class in [Class::C01, Class::C02, Class::C03, Class::C10, Class::C11, Class::Mixed] {
        match compare(class, n, 16, 5) {
            Ok(k) => {
                total += k;
                println!("determinism: class {class:?}: {k} runs x 2 executions (16 vs 5 worker processes) identical");
            }
            Err(e) => {
                eprintln!("HARNESS-ERROR: nondeterminism detected: {e}");
                return 2;
            }
        }
    }
    println!("determinism self-test passed: {total} runs compared");
    0
}
