//! Engine E1 — in-process layer-store simulator (C01, C02, C03, C10, C11; C12 builds on it).

pub mod check;
pub mod driver;
pub mod selftest;
pub mod exec;
pub mod faults;
pub mod generate;
pub mod model;
pub mod ops;

use crate::rng::run_seed;
use crate::shimapi::Shim;
use check::{RunCfg, RunReport, Violation};
use generate::{Class, Swarm};
use ops::{History, Op};
use serde::{Deserialize, Serialize};
use std::collections::{BTreeMap, BTreeSet};
use std::path::{Path, PathBuf};

#[derive(Clone, Debug, Serialize, Deserialize)]
pub struct Replay {
    pub engine: String,
    pub property: String,
    pub class: Class,
    pub seed: u64,
    pub run_index: u64,
    pub chaos: bool,
    pub rd_perm: bool,
    pub history: History,
    pub violation: Violation,
    pub shim_ring: Option<String>,
    pub minimised_from_steps: usize,
    #[serde(default)]
    pub hard_fault: Option<(usize, i64, i32)>,
}

#[derive(Clone, Debug, Default, Serialize, Deserialize)]
pub struct WorkerSummary {
    pub runs: u64,
    pub steps: u64,
    pub skipped: u64,
    pub libcnb_calls: u64,
    pub transitions: BTreeSet<String>,
    pub shapes_nontrivial: BTreeSet<u64>,
    pub shapes_all: BTreeSet<u64>,
    pub probes: BTreeMap<String, u64>,
    pub fs_calls: i64,
    pub short_rw: i64,
    pub eintr: i64,
    pub readdir_perms: i64,
    pub per_kind: BTreeMap<String, i64>,
    pub chaos_runs: u64,
    pub violations: Vec<Replay>,
    pub harness_errors: Vec<String>,
    pub samples: Vec<serde_json::Value>,
    pub event_hashes: Vec<(u64, u64)>,
    pub ops_by_kind: BTreeMap<String, u64>,
    pub hash_orders: BTreeSet<u64>,
}

impl WorkerSummary {
    pub fn merge(&mut self, o: WorkerSummary) {
        self.runs += o.runs;
        self.steps += o.steps;
        self.skipped += o.skipped;
        self.libcnb_calls += o.libcnb_calls;
        self.transitions.extend(o.transitions);
        self.shapes_nontrivial.extend(o.shapes_nontrivial);
        self.shapes_all.extend(o.shapes_all);
        for (k, v) in o.probes {
            *self.probes.entry(k).or_insert(0) += v;
        }
        self.fs_calls += o.fs_calls;
        self.short_rw += o.short_rw;
        self.eintr += o.eintr;
        self.readdir_perms += o.readdir_perms;
        for (k, v) in o.per_kind {
            *self.per_kind.entry(k).or_insert(0) += v;
        }
        self.chaos_runs += o.chaos_runs;
        self.violations.extend(o.violations);
        self.harness_errors.extend(o.harness_errors);
        if self.samples.len() < 3 {
            self.samples.extend(o.samples);
            self.samples.truncate(3);
        }
        self.event_hashes.extend(o.event_hashes);
        self.hash_orders.extend(o.hash_orders);
        for (k, v) in o.ops_by_kind {
            *self.ops_by_kind.entry(k).or_insert(0) += v;
        }
    }
}

/// Run one history on a fresh thread, with the hash keys of that thread a function of `seed`.
pub fn run_isolated(history: &History, cfg: &RunCfg, shim: &Shim) -> RunReport {
    shim.set_random(cfg.seed, true);
    let h = history.clone();
    let c = cfg.clone();
    let s = *shim;
    let handle = std::thread::Builder::new()
        .name("e1-run".into())
        .stack_size(16 << 20)
        .spawn(move || check::run_history(&h, &c, &s))
        .expect("spawn run thread");
    let out = match handle.join() {
        Ok(r) => r,
        Err(p) => {
            // make sure the shim is disarmed, then report the panic as a finding to triage
            let _ = shim.end();
            let msg = p
                .downcast_ref::<String>()
                .cloned()
                .or_else(|| p.downcast_ref::<&str>().map(|s| (*s).to_string()))
                .unwrap_or_else(|| "panic".into());
            RunReport {
                violation: Some(Violation {
                    properties: vec!["C01".into(), "C02".into(), "C03".into(), "C10".into(), "C11".into()],
                    invariant: "I-panic".into(),
                    step: 0,
                    op: String::new(),
                    detail: vec![format!("the code under test panicked: {msg}")],
                    signature: "I-panic".into(),
                }),
                ..RunReport::default()
            }
        }
    };
    shim.set_random(0, false);
    out
}

pub struct RunPlan {
    pub class: Class,
    pub max_steps: usize,
    pub chaos_every: u64,
    pub keep_event_log: bool,
}

pub fn plan_for(class: Class, tier: &str) -> RunPlan {
    RunPlan {
        class,
        max_steps: if tier == "thorough" { 60 } else { 25 },
        chaos_every: 4,
        keep_event_log: false,
    }
}

/// Worker: runs indices [from, to) of `class` and returns the aggregate.
pub fn worker_runs(
    global_seed: u64,
    plan: &RunPlan,
    from: u64,
    to: u64,
    scratch: &Path,
    shim: &Shim,
    properties: &[String],
) -> WorkerSummary {
    let mut sum = WorkerSummary::default();
    let engine = format!("e1-{:?}", plan.class);
    for i in from..to {
        if sum.violations.len() >= 4 {
            break;
        }
        let seed = run_seed(global_seed, &engine, i);
        let (history, sw) = generate::gen_history(seed, plan.class, plan.max_steps);
        let chaos = plan.chaos_every > 0 && i % plan.chaos_every == plan.chaos_every - 1;
        // every fifth run: one hard I/O error somewhere in the middle, then the history goes on
        let hard_fault = (i % 5 == 2 && !chaos).then(|| {
            let mut fr = crate::rng::Rng::sub(seed, "mid-history-fault");
            let calls = history.ops.iter().filter(|o| !matches!(o, Op::PlainFile { .. } | Op::MkDir { .. } | Op::Symlink { .. } | Op::HardLink { .. } | Op::Implicit { .. } | Op::SpecDir { .. } | Op::TopSymlink { .. } | Op::SbomLink { .. } | Op::TomlLink { .. } | Op::ExecDAlias { .. } | Op::ChmodLayer { .. } | Op::ChmodToml { .. } | Op::CorruptToml { .. } | Op::RewriteSource { .. } | Op::Restore { .. })).count().max(1);
            (
                1 + fr.usize(calls),
                1 + fr.below(14) as i64,
                *fr.pick(&[libc::EIO, libc::EACCES, libc::ENOSPC]),
            )
        });
        let cfg = RunCfg {
            root: world_root(scratch, "w", seed),
            seed,
            chaos,
            rd_perm: true,
            keep_event_log: plan.keep_event_log,
            hard_fault,
        };
        let rep = run_isolated(&history, &cfg, shim);
        sum.runs += 1;
        sum.steps += rep.steps as u64;
        sum.skipped += rep.skipped as u64;
        sum.libcnb_calls += rep.libcnb_calls as u64;
        sum.fs_calls += rep.fs_calls;
        sum.short_rw += rep.short_rw;
        sum.eintr += rep.eintr;
        sum.readdir_perms += rep.readdir_perms;
        if chaos {
            sum.chaos_runs += 1;
        }
        for (k, v) in &rep.per_kind {
            *sum.per_kind.entry(k.clone()).or_insert(0) += v;
        }
        for t in &rep.transitions {
            sum.transitions.insert(t.clone());
        }
        for (k, v) in &rep.probes {
            *sum.probes.entry(k.clone()).or_insert(0) += v;
        }
        for op in &history.ops {
            *sum.ops_by_kind.entry(op.kind_name().to_string()).or_insert(0) += 1;
        }
        sum.shapes_all.insert(rep.shape);
        if sum.hash_orders.len() < 5000 {
            sum.hash_orders.insert(rep.hash_order);
        }
        if rep.nontrivial {
            sum.shapes_nontrivial.insert(rep.shape);
        }
        if plan.keep_event_log {
            let mut h = 0u64;
            for l in &rep.event_log {
                h = crate::rng::splitmix64(h ^ crate::rng::hash_str(l));
            }
            sum.event_hashes.push((i, h));
        }
        if sum.samples.len() < 2 && rep.steps >= 4 && rep.violation.is_none() {
            sum.samples.push(sample_json(i, seed, &sw, &history));
        }
        if let Some(e) = rep.harness_error {
            sum.harness_errors.push(format!("run {i} seed {seed}: {e}"));
            continue;
        }
        if let Some(v) = rep.violation {
            let relevant = v.properties.iter().any(|p| properties.contains(p));
            if relevant && sum.violations.len() < 4 {
                let property = v
                    .properties
                    .iter()
                    .find(|p| properties.contains(p))
                    .cloned()
                    .unwrap_or_default();
                let ring = shim.ring();
                sum.violations.push(Replay {
                    engine: "e1".into(),
                    property,
                    class: plan.class,
                    seed,
                    run_index: i,
                    chaos,
                    rd_perm: true,
                    minimised_from_steps: history.ops.len(),
                    history,
                    violation: v,
                    shim_ring: Some(ring),
                    hard_fault,
                });
            } else if !relevant {
                *sum.probes.entry(format!("out_of_scope_violation_{}", v.properties.join("+"))).or_insert(0) += 1;
            }
        }
    }
    sum
}

fn sample_json(i: u64, seed: u64, sw: &Swarm, h: &History) -> serde_json::Value {
    serde_json::json!({
        "run_index": i,
        "seed": seed,
        "swarm": {"class": format!("{:?}", sw.class), "steps": sw.steps, "layers": sw.nlayers,
                  "restore_kinds": format!("{:?}", sw.restore_kinds), "weights": sw.weights.to_vec()},
        "layers": h.layers,
        "ops": h.ops.iter().take(30).map(brief).collect::<Vec<_>>(),
    })
}

pub fn brief(op: &Op) -> String {
    let s = format!("{op:?}");
    if s.len() > 220 {
        let mut cut = 220;
        while !s.is_char_boundary(cut) {
            cut -= 1;
        }
        format!("{}…", &s[..cut])
    } else {
        s
    }
}

/// Every fourth world is reached through a path that is not in canonical form
/// (`<scratch>/dots/../w`): what libcnb reports and derives must use the path as given.
pub fn world_root(scratch: &Path, name: &str, seed: u64) -> std::path::PathBuf {
    if seed % 4 == 1 {
        let _ = std::fs::create_dir_all(scratch.join("dots"));
        scratch.join("dots").join("..").join(name)
    } else if seed % 8 == 2 {
        // a directory name holding the path-list separator (job:42): ugly but legal
        let _ = std::fs::create_dir_all(scratch.join("job:42"));
        scratch.join("job:42").join(name)
    } else {
        scratch.join(name)
    }
}

/// Delta-debugging minimisation: drop steps (then simplify payloads) while the same violation
/// class (same invariant, same signature shape) persists. Runs inside a worker process.
pub fn minimise(replay: &Replay, scratch: &Path, shim: &Shim) -> Replay {
    let same = |r: &RunReport| -> Option<Violation> {
        r.violation
            .clone()
            .filter(|v| v.invariant == replay.violation.invariant && v.properties.contains(&replay.property))
    };
    let cfg = RunCfg {
        root: world_root(scratch, "min", replay.seed),
        seed: replay.seed,
        chaos: replay.chaos,
        rd_perm: replay.rd_perm,
        keep_event_log: false,
        hard_fault: replay.hard_fault,
    };
    let mut best = replay.clone();
    // cut everything after the failing step
    let fail_step = best.violation.step;
    if fail_step + 1 < best.history.ops.len() {
        best.history.ops.truncate(fail_step + 1);
    }
    // without chaos / readdir permutation if the failure does not need them
    for (chaos, rd) in [(false, false), (false, true)] {
        if best.chaos || best.rd_perm != rd {
            let c = RunCfg {
                chaos,
                rd_perm: rd,
                ..cfg.clone()
            };
            if let Some(v) = same(&run_isolated(&best.history, &c, shim)) {
                best.chaos = chaos;
                best.rd_perm = rd;
                best.violation = v;
                break;
            }
        }
    }
    let cfg = RunCfg {
        chaos: best.chaos,
        rd_perm: best.rd_perm,
        ..cfg
    };
    let mut chunk = (best.history.ops.len() / 2).max(1);
    let mut budget = 400;
    while chunk >= 1 && budget > 0 {
        let mut i = 0;
        let mut progressed = false;
        while i < best.history.ops.len() && budget > 0 {
            let mut cand = best.history.clone();
            let end = (i + chunk).min(cand.ops.len());
            // never drop the last op (the failing one)
            if end >= cand.ops.len() {
                if i + 1 >= cand.ops.len() {
                    break;
                }
                cand.ops.drain(i..cand.ops.len() - 1);
            } else {
                cand.ops.drain(i..end);
            }
            budget -= 1;
            if let Some(v) = same(&run_isolated(&cand, &cfg, shim)) {
                best.history = cand;
                best.violation = v;
                progressed = true;
            } else {
                i += chunk;
            }
        }
        if chunk == 1 && !progressed {
            break;
        }
        if !progressed {
            chunk /= 2;
        }
    }
    // drop unused layers from the tail (keeps indices stable)
    loop {
        let n = best.history.layers.len();
        if n <= 1 {
            break;
        }
        let used = best.history.ops.iter().filter_map(Op::layer).max().unwrap_or(0);
        if used + 1 < n {
            let mut cand = best.history.clone();
            cand.layers.truncate(used + 1);
            if let Some(v) = same(&run_isolated(&cand, &cfg, shim)) {
                best.history = cand;
                best.violation = v;
                continue;
            }
        }
        break;
    }
    // drop foreign files
    if !best.history.foreign.is_empty() {
        let mut cand = best.history.clone();
        cand.foreign.clear();
        if let Some(v) = same(&run_isolated(&cand, &cfg, shim)) {
            best.history = cand;
            best.violation = v;
        }
    }
    best.shim_ring = Some(shim.ring());
    best
}

pub fn replay_once(replay: &Replay, scratch: &Path, shim: &Shim) -> RunReport {
    let cfg = RunCfg {
        root: world_root(scratch, "replay", replay.seed),
        seed: replay.seed,
        chaos: replay.chaos,
        rd_perm: replay.rd_perm,
        keep_event_log: true,
        hard_fault: replay.hard_fault,
    };
    run_isolated(&replay.history, &cfg, shim)
}

pub fn scratch_for_worker(base: &Path, id: u64) -> PathBuf {
    base.join(format!("e1-{id}"))
}
