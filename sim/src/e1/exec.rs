//! Drives the real libcnb layer code (public API only) for one operation at a time.

use super::model::{CbKind, Model, Reported, Types};
use super::ops::*;
use crate::envmodel::{Beh, EnvEntry, ScopeM};
use crate::snap::{self, Snap, to_path};
use libcnb::build::{BuildContext, BuildResult};
use libcnb::data::buildpack_plan::BuildpackPlan;
use libcnb::data::layer::LayerName;
use libcnb::data::layer_content_metadata::LayerTypes;
use libcnb::data::sbom::SbomFormat;
use libcnb::detect::{DetectContext, DetectResult};
use libcnb::generic::{GenericMetadata, GenericPlatform};
use libcnb::layer::{
    CachedLayerDefinition, EmptyLayerCause, ExistingLayerStrategy, InvalidMetadataAction, Layer,
    LayerData, LayerRef, LayerResult, LayerState, MetadataMigration, RestoredLayerAction,
    UncachedLayerDefinition,
};
use libcnb::layer_env::{LayerEnv, ModificationBehavior, Scope};
use libcnb::sbom::Sbom;
use libcnb::{Buildpack, Env, Target};
use serde::de::DeserializeOwned;
use serde::{Deserialize, Serialize};
use std::cell::RefCell;
use std::collections::HashMap;
use std::ffi::{OsStr, OsString};
use std::fs;
use std::marker::PhantomData;
use std::os::unix::ffi::{OsStrExt, OsStringExt};
use std::os::unix::fs::PermissionsExt;
use std::path::{Path, PathBuf};

/// Set while a C12 fault plan is armed: harness-side writes inside callbacks may then fail.
pub static FAULT_MODE: std::sync::atomic::AtomicBool = std::sync::atomic::AtomicBool::new(false);

pub struct SimBp;

#[derive(Debug, Clone, PartialEq)]
pub struct SimErr(pub u32);

impl Buildpack for SimBp {
    type Platform = GenericPlatform;
    type Metadata = GenericMetadata;
    type Error = SimErr;

    // E1 drives the layer API directly and never reaches these; in the `simbp` executable
    // (E2) they run the scripted author code.
    fn detect(&self, ctx: DetectContext<Self>) -> libcnb::Result<DetectResult, Self::Error> {
        crate::e2::bp::detect(ctx)
    }
    fn build(&self, ctx: BuildContext<Self>) -> libcnb::Result<BuildResult, Self::Error> {
        crate::e2::bp::build(ctx)
    }
    fn on_error(&self, error: libcnb::Error<Self::Error>) {
        crate::e2::bp::on_error(&error);
    }
}

#[derive(Serialize, Deserialize, Clone, Debug, PartialEq)]
#[serde(deny_unknown_fields)]
pub struct MetaA {
    pub version: String,
}

#[derive(Serialize, Deserialize, Clone, Debug, PartialEq)]
#[serde(deny_unknown_fields)]
pub struct MetaB {
    pub version: String,
    pub sha: String,
}

#[derive(Serialize, Deserialize, Clone, Debug, PartialEq)]
pub struct MetaLoose {
    pub version: String,
}

impl MetaT for MetaLoose {
    fn to_val(&self) -> MetaVal {
        MetaVal::Loose {
            version: self.version.clone(),
        }
    }
    fn from_val(v: &MetaVal) -> Self {
        match v {
            MetaVal::Loose { version } | MetaVal::A { version } => MetaLoose {
                version: version.clone(),
            },
            _ => MetaLoose {
                version: String::new(),
            },
        }
    }
}

/// An author's metadata type with a field TOML has no representation for.
#[derive(Serialize)]
struct MetaUnwritable {
    version: String,
    checksum: u64,
}

pub trait MetaT: Serialize + DeserializeOwned + Clone + 'static {
    fn to_val(&self) -> MetaVal;
    fn from_val(v: &MetaVal) -> Self;
}

impl MetaT for GenericMetadata {
    fn to_val(&self) -> MetaVal {
        match self {
            None => MetaVal::Absent,
            Some(t) => MetaVal::Table(t.clone()),
        }
    }
    fn from_val(v: &MetaVal) -> Self {
        // as author code that fills a table from a HashMap would
        v.table().map(|t| crate::e2::tval::reinsert_in_hash_order(&t))
    }
}

impl MetaT for MetaA {
    fn to_val(&self) -> MetaVal {
        MetaVal::A {
            version: self.version.clone(),
        }
    }
    fn from_val(v: &MetaVal) -> Self {
        match v {
            MetaVal::A { version } => MetaA {
                version: version.clone(),
            },
            _ => MetaA {
                version: String::new(),
            },
        }
    }
}

impl MetaT for MetaB {
    fn to_val(&self) -> MetaVal {
        MetaVal::B {
            version: self.version.clone(),
            sha: self.sha.clone(),
        }
    }
    fn from_val(v: &MetaVal) -> Self {
        match v {
            MetaVal::B { version, sha } => MetaB {
                version: version.clone(),
                sha: sha.clone(),
            },
            _ => MetaB {
                version: String::new(),
                sha: String::new(),
            },
        }
    }
}

#[derive(Debug)]
pub enum ObsErr {
    Buildpack(u32),
    Other(String),
}

fn conv_err(e: libcnb::Error<SimErr>) -> ObsErr {
    match e {
        libcnb::Error::BuildpackError(SimErr(c)) => ObsErr::Buildpack(c),
        other => ObsErr::Other(format!("{other}")),
    }
}

pub struct LoggedCb {
    pub kind: CbKind,
    pub md: Option<toml::Table>,
    pub path: Option<PathBuf>,
    pub name: Option<String>,
    pub env: Option<LayerEnv>,
    /// create: names found in the layer directory when the callback started
    pub listing: Option<Vec<OsString>>,
    /// snapshot of the layer directory as the callback found it
    pub dir: Option<Snap>,
}

pub enum Observed {
    NoCall,
    Skipped,
    StructOk(Reported),
    TraitOk {
        name: String,
        path: PathBuf,
        types: Option<Types>,
        meta: Option<toml::Table>,
        env: Box<LayerEnv>,
    },
    EnvRead(Box<LayerEnv>),
    UnitOk,
    ErrBuildpack(u32),
    ErrOther(String),
}

impl Observed {
    pub fn tag(&self) -> String {
        match self {
            Observed::NoCall => "nocall".into(),
            Observed::Skipped => "skipped".into(),
            Observed::StructOk(r) => format!("{r:?}"),
            Observed::TraitOk { .. } => "trait-ok".into(),
            Observed::EnvRead(_) => "env-read".into(),
            Observed::UnitOk => "ok".into(),
            Observed::ErrBuildpack(c) => format!("err-buildpack({c})"),
            Observed::ErrOther(s) => format!("err-other({s})"),
        }
    }
    pub fn is_ok(&self) -> bool {
        !matches!(self, Observed::ErrBuildpack(_) | Observed::ErrOther(_))
    }
}

pub trait CauseOpt: 'static {
    fn opt(&self) -> Option<u32>;
}
impl CauseOpt for () {
    fn opt(&self) -> Option<u32> {
        None
    }
}
impl CauseOpt for u32 {
    fn opt(&self) -> Option<u32> {
        Some(*self)
    }
}

pub trait RefOps {
    fn path(&self) -> PathBuf;
    fn write_metadata(&self, m: &MetaVal) -> Result<(), ObsErr>;
    fn write_env(&self, env: &LayerEnv) -> Result<(), ObsErr>;
    fn read_env(&self) -> Result<LayerEnv, ObsErr>;
    fn write_sboms(&self, sboms: &[Sbom]) -> Result<(), ObsErr>;
    fn write_exec_d(&self, progs: Vec<(String, PathBuf)>) -> Result<(), ObsErr>;
}

impl<MAC: 'static, RAC: 'static> RefOps for LayerRef<SimBp, MAC, RAC> {
    fn path(&self) -> PathBuf {
        LayerRef::path(self)
    }
    fn write_metadata(&self, m: &MetaVal) -> Result<(), ObsErr> {
        match m {
            MetaVal::Absent | MetaVal::Table(_) => {
                LayerRef::write_metadata(self, GenericMetadata::from_val(m))
            }
            MetaVal::A { .. } => LayerRef::write_metadata(self, MetaA::from_val(m)),
            MetaVal::B { .. } => LayerRef::write_metadata(self, MetaB::from_val(m)),
            MetaVal::Loose { .. } => LayerRef::write_metadata(self, MetaLoose::from_val(m)),
            MetaVal::Unwritable => LayerRef::write_metadata(
                self,
                MetaUnwritable {
                    version: "1".into(),
                    checksum: u64::MAX,
                },
            ),
        }
        .map_err(conv_err)
    }
    fn write_env(&self, env: &LayerEnv) -> Result<(), ObsErr> {
        LayerRef::write_env(self, env).map_err(conv_err)
    }
    fn read_env(&self) -> Result<LayerEnv, ObsErr> {
        LayerRef::read_env(self).map_err(conv_err)
    }
    fn write_sboms(&self, sboms: &[Sbom]) -> Result<(), ObsErr> {
        LayerRef::write_sboms(self, sboms).map_err(conv_err)
    }
    fn write_exec_d(&self, progs: Vec<(String, PathBuf)>) -> Result<(), ObsErr> {
        LayerRef::write_exec_d_programs(self, progs).map_err(conv_err)
    }
}

pub fn layer_env_from_spec(spec: &[EnvEntry]) -> LayerEnv {
    let mut env = LayerEnv::new();
    for e in spec {
        let scope = match &e.scope {
            ScopeM::All => Scope::All,
            ScopeM::Build => Scope::Build,
            ScopeM::Launch => Scope::Launch,
            ScopeM::Process(p) => Scope::Process(p.clone()),
        };
        let beh = match e.beh {
            Beh::Append => ModificationBehavior::Append,
            Beh::Default => ModificationBehavior::Default,
            Beh::Delim => ModificationBehavior::Delimiter,
            Beh::Override => ModificationBehavior::Override,
            Beh::Prepend => ModificationBehavior::Prepend,
        };
        env.insert(
            scope,
            beh,
            OsString::from_vec(e.name.clone()),
            OsString::from_vec(e.value.clone()),
        );
    }
    env
}

pub fn sbom_format(f: u8) -> SbomFormat {
    match f {
        0 => SbomFormat::CycloneDxJson,
        1 => SbomFormat::SpdxJson,
        _ => SbomFormat::SyftJson,
    }
}

fn sboms_from_spec(s: &[SbomSpec]) -> Vec<Sbom> {
    s.iter()
        .map(|x| Sbom::from_bytes(sbom_format(x.format), x.data.clone()))
        .collect()
}

fn conv_state<MAC: CauseOpt, RAC: CauseOpt>(s: &LayerState<MAC, RAC>) -> Reported {
    match s {
        LayerState::Restored { cause } => Reported::Restored { cause: cause.opt() },
        LayerState::Empty { cause } => match cause {
            EmptyLayerCause::NewlyCreated => Reported::EmptyNew,
            EmptyLayerCause::InvalidMetadataAction { cause } => Reported::EmptyInvalid { cause: cause.opt() },
            EmptyLayerCause::RestoredLayerAction { cause } => Reported::EmptyRestored { cause: cause.opt() },
        },
    }
}

type StructOut = Result<(Reported, Box<dyn RefOps>), ObsErr>;

fn conv_ref<MAC: CauseOpt, RAC: CauseOpt>(
    r: libcnb::Result<LayerRef<SimBp, MAC, RAC>, SimErr>,
) -> StructOut {
    match r {
        Ok(lr) => {
            let rep = conv_state(&lr.state);
            Ok((rep, Box::new(lr)))
        }
        Err(e) => Err(conv_err(e)),
    }
}

pub struct World {
    pub root: PathBuf,
    pub ctx: BuildContext<SimBp>,
    pub names: Vec<LayerName>,
    /// every layer reference obtained in the current build, oldest first
    pub refs: HashMap<usize, Vec<Box<dyn RefOps>>>,
}

const DESCRIPTOR: &str = r#"
api = "0.10"

[buildpack]
id = "sim/e1"
version = "0.0.1"
"#;

pub fn make_context(root: &Path) -> BuildContext<SimBp> {
    BuildContext {
        layers_dir: root.join("layers"),
        app_dir: root.join("app"),
        buildpack_dir: root.join("buildpack"),
        target: Target {
            os: "linux".into(),
            arch: "amd64".into(),
            arch_variant: None,
            distro_name: "sim".into(),
            distro_version: "1".into(),
        },
        platform: GenericPlatform::new(Env::new()),
        buildpack_plan: BuildpackPlan { entries: Vec::new() },
        buildpack_descriptor: toml::from_str(DESCRIPTOR).expect("descriptor"),
        store: None,
    }
}

impl World {
    /// Fresh world at `root` holding exactly the model's initial snapshot.
    pub fn create(root: &Path, initial: &Snap, layers: &[String]) -> std::io::Result<World> {
        fs::create_dir_all(root)?;
        snap::wipe(root)?;
        snap::materialise(root, initial)?;
        let names = layers
            .iter()
            .map(|l| l.parse::<LayerName>().expect("layer name"))
            .collect();
        Ok(World {
            root: root.to_path_buf(),
            ctx: make_context(root),
            names,
            refs: HashMap::new(),
        })
    }

    /// Wrap the context the real runtime handed to `build` (E2).
    pub fn from_context(ctx: BuildContext<SimBp>, root: &Path, layers: &[String]) -> World {
        World {
            root: root.to_path_buf(),
            ctx,
            names: layers
                .iter()
                .map(|l| l.parse::<LayerName>().expect("layer name"))
                .collect(),
            refs: HashMap::new(),
        }
    }

    pub fn snapshot(&self) -> std::io::Result<Snap> {
        Snap::take(&self.root)
    }

    fn latest(&self, layer: usize) -> &dyn RefOps {
        let list = &self.refs[&layer];
        list[list.len() - 1].as_ref()
    }

    fn layer_path(&self, i: usize) -> PathBuf {
        self.root.join("layers").join(self.names[i].as_str())
    }

    fn source_path(&self, idx: usize) -> PathBuf {
        self.root.join("execd_src").join(format!("p{idx}"))
    }

    /// Execute one operation against the real code. `model_after` is the model state after the
    /// operation (used only by harness-side operations: restore, link targets).
    pub fn exec(&mut self, op: &Op, model_after: &Model, log: &RefCell<Vec<LoggedCb>>) -> Observed {
        match op {
            Op::Cached {
                id,
                layer,
                build,
                launch,
                kind,
                enc_restored,
                enc_invalid,
                restored,
                invalid,
            } => {
                let out = match kind {
                    MetaKind::Generic => self.run_cached::<GenericMetadata>(
                        *id, *layer, *build, *launch, *enc_restored, *enc_invalid, *restored, invalid, log,
                    ),
                    MetaKind::A => self.run_cached::<MetaA>(
                        *id, *layer, *build, *launch, *enc_restored, *enc_invalid, *restored, invalid, log,
                    ),
                    MetaKind::B => self.run_cached::<MetaB>(
                        *id, *layer, *build, *launch, *enc_restored, *enc_invalid, *restored, invalid, log,
                    ),
                    MetaKind::Loose => self.run_cached::<MetaLoose>(
                        *id, *layer, *build, *launch, *enc_restored, *enc_invalid, *restored, invalid, log,
                    ),
                };
                self.finish_struct(*layer, out)
            }
            Op::Uncached { layer, build, launch, .. } => {
                let r = self.ctx.uncached_layer(
                    &self.names[*layer],
                    UncachedLayerDefinition {
                        build: *build,
                        launch: *launch,
                    },
                );
                let out = conv_ref(r);
                self.finish_struct(*layer, out)
            }
            Op::Handle {
                id,
                layer,
                build,
                launch,
                cache,
                kind,
                strategy,
                migration,
                result,
                types_after,
            } => {
                self.refs.remove(layer);
                let types = LayerTypes {
                    build: *build,
                    launch: *launch,
                    cache: *cache,
                };
                let after = types_after.map(|(b, l, c)| LayerTypes {
                    build: b,
                    launch: l,
                    cache: c,
                });
                match kind {
                    MetaKind::Generic => {
                        self.run_handle::<GenericMetadata>(*id, *layer, types, after, *strategy, migration, result, log)
                    }
                    MetaKind::A => self.run_handle::<MetaA>(*id, *layer, types, after, *strategy, migration, result, log),
                    MetaKind::B => self.run_handle::<MetaB>(*id, *layer, types, after, *strategy, migration, result, log),
                    MetaKind::Loose => self.run_handle::<MetaLoose>(*id, *layer, types, after, *strategy, migration, result, log),
                }
            }
            Op::WriteMetadata { layer, meta, older_ref } => {
                let list = &self.refs[layer];
                let r = if *older_ref { &list[0] } else { &list[list.len() - 1] };
                unit(r.write_metadata(meta))
            }
            Op::WriteEnv { layer, env } => unit(self.latest(*layer).write_env(&layer_env_from_spec(env))),
            Op::ReadEnv { layer, .. } => match self.latest(*layer).read_env() {
                Ok(e) => Observed::EnvRead(Box::new(e)),
                Err(ObsErr::Buildpack(c)) => Observed::ErrBuildpack(c),
                Err(ObsErr::Other(s)) => Observed::ErrOther(s),
            },
            Op::EnvCycle { layer, times } => {
                for _ in 0..*times {
                    let env = match self.latest(*layer).read_env() {
                        Ok(e) => e,
                        Err(ObsErr::Buildpack(c)) => return Observed::ErrBuildpack(c),
                        Err(ObsErr::Other(s)) => return Observed::ErrOther(s),
                    };
                    if let Err(e) = self.latest(*layer).write_env(&env) {
                        return match e {
                            ObsErr::Buildpack(c) => Observed::ErrBuildpack(c),
                            ObsErr::Other(s) => Observed::ErrOther(s),
                        };
                    }
                }
                Observed::UnitOk
            }
            Op::WriteSboms { layer, sboms } => unit(self.latest(*layer).write_sboms(&sboms_from_spec(sboms))),
            Op::WriteExecD { layer, progs } => {
                let v = progs
                    .iter()
                    .map(|p| (p.name.clone(), self.source_path(p.source)))
                    .collect();
                unit(self.latest(*layer).write_exec_d(v))
            }
            Op::PlainFile { layer, file } => {
                harness(write_file(&self.layer_path(*layer), file));
                Observed::NoCall
            }
            Op::MkDir { layer, path, mode } => {
                let full = self.layer_path(*layer).join(OsStr::from_bytes(path));
                harness((|| {
                    fs::create_dir_all(&full)?;
                    fs::set_permissions(&full, fs::Permissions::from_mode(*mode))
                })());
                Observed::NoCall
            }
            Op::Symlink { layer, path, target } => {
                let full = self.layer_path(*layer).join(OsStr::from_bytes(path));
                let rel = snap::join(&model_after.ldir(*layer), path);
                let t = model_after.link_target_bytes(&rel, target);
                harness((|| {
                    if let Some(parent) = full.parent() {
                        fs::create_dir_all(parent)?;
                    }
                    std::os::unix::fs::symlink(OsStr::from_bytes(&t), &full)
                })());
                Observed::NoCall
            }
            Op::HardLink { layer, path, to } => {
                let full = self.layer_path(*layer).join(OsStr::from_bytes(path));
                let target = to_path(&self.root, to);
                harness((|| {
                    if let Some(parent) = full.parent() {
                        fs::create_dir_all(parent)?;
                    }
                    fs::hard_link(&target, &full)
                })());
                Observed::NoCall
            }
            Op::Implicit { layer, which, .. } => {
                // take the resulting entry from the model (it is a pure harness-side mutation)
                let rel = snap::join(&model_after.ldir(*layer), IMPLICIT_NAMES[*which].as_bytes());
                let full = to_path(&self.root, &rel);
                harness((|| {
                    remove_any(&full)?;
                    let mut sub = Snap::default();
                    if let Some(n) = model_after.snap.get(&rel) {
                        sub.insert(rel.clone(), n.clone());
                    }
                    snap::materialise(&self.root, &sub)
                })());
                Observed::NoCall
            }
            Op::SpecDir { layer, files, links } => {
                let base = self.layer_path(*layer);
                harness((|| {
                    for d in ["env", "env.build", "env.launch"] {
                        remove_any(&base.join(d))?;
                    }
                    for f in files {
                        write_file(&base, &super::ops::with_layer_path(f, base.as_os_str().as_bytes()))?;
                    }
                    for k in links {
                        std::os::unix::fs::symlink(OsStr::from_bytes(&k.target), to_path(&base, &k.path))?;
                    }
                    Ok(())
                })());
                Observed::NoCall
            }
            Op::TopSymlink { layer, .. } => {
                self.refs.remove(layer);
                let rel = model_after.ldir(*layer);
                let full = to_path(&self.root, &rel);
                harness((|| {
                    remove_any(&full)?;
                    if let Some(crate::snap::Node::Symlink { target }) = model_after.snap.get(&rel) {
                        std::os::unix::fs::symlink(OsStr::from_bytes(target), &full)?;
                    }
                    Ok(())
                })());
                Observed::NoCall
            }
            Op::TomlLink { layer, .. } => {
                let rel = model_after.ltoml(*layer);
                let full = to_path(&self.root, &rel);
                harness((|| {
                    remove_any(&full)?;
                    if let Some(crate::snap::Node::Symlink { target }) = model_after.snap.get(&rel) {
                        std::os::unix::fs::symlink(OsStr::from_bytes(target), &full)?;
                    }
                    Ok(())
                })());
                Observed::NoCall
            }
            Op::ExecDAlias { layer, from, to, hard } => {
                let e = self.layer_path(*layer).join("exec.d");
                harness((|| {
                    remove_any(&e.join(to))?;
                    if *hard {
                        fs::hard_link(e.join(from), e.join(to))
                    } else {
                        std::os::unix::fs::symlink(from, e.join(to))
                    }
                })());
                Observed::NoCall
            }
            Op::ChmodToml { layer, mode } => {
                let t = to_path(&self.root, &model_after.ltoml(*layer));
                harness(fs::set_permissions(&t, fs::Permissions::from_mode(*mode)));
                Observed::NoCall
            }
            Op::CorruptToml { layer } => {
                let t = to_path(&self.root, &model_after.ltoml(*layer));
                harness(fs::write(&t, b"[metadata]\nversion = \"trunca"));
                Observed::NoCall
            }
            Op::RewriteSource { idx, data } => {
                // in place: open for writing, truncate, write (what `fs::write` does)
                harness(fs::write(self.root.join(format!("execd_src/p{idx}")), data));
                Observed::NoCall
            }
            Op::ChmodLayer { layer, mode } => {
                let d = self.layer_path(*layer);
                harness(fs::set_permissions(&d, fs::Permissions::from_mode(*mode)));
                Observed::NoCall
            }
            Op::SbomLink { layer, format, .. } => {
                let rel = model_after.lsbom(*layer, *format);
                let full = to_path(&self.root, &rel);
                harness((|| {
                    remove_any(&full)?;
                    if let Some(crate::snap::Node::Symlink { target }) = model_after.snap.get(&rel) {
                        std::os::unix::fs::symlink(OsStr::from_bytes(target), &full)?;
                    }
                    Ok(())
                })());
                Observed::NoCall
            }
            Op::Restore { .. } => {
                self.refs.clear();
                let layers = self.root.join("layers");
                harness((|| {
                    snap::wipe(&layers)?;
                    snap::materialise(&layers, &model_after.snap.subtree(b"layers"))
                })());
                Observed::NoCall
            }
        }
    }

    fn finish_struct(&mut self, layer: usize, out: StructOut) -> Observed {
        match out {
            Ok((rep, r)) => {
                self.refs.entry(layer).or_default().push(r);
                Observed::StructOk(rep)
            }
            Err(ObsErr::Buildpack(c)) => Observed::ErrBuildpack(c),
            Err(ObsErr::Other(s)) => Observed::ErrOther(s),
        }
    }

    #[allow(clippy::too_many_arguments)]
    fn run_cached<M: MetaT>(
        &self,
        id: u32,
        layer: usize,
        build: bool,
        launch: bool,
        enc_r: Enc,
        enc_i: Enc,
        restored: Restored,
        invalid: &Invalid,
        log: &RefCell<Vec<LoggedCb>>,
    ) -> StructOut {
        let name = &self.names[layer];
        let cr = cause_restored(id);
        let ci = cause_invalid(id);
        let log_r = |md: &M, path: &Path| {
            log.borrow_mut().push(LoggedCb {
                kind: CbKind::Restored,
                md: md.to_val().table(),
                path: Some(path.to_path_buf()),
                name: None,
                env: None,
                listing: None,
                dir: Snap::take(path).ok(),
            });
        };
        let log_i = |md: &GenericMetadata| {
            log.borrow_mut().push(LoggedCb {
                kind: CbKind::Invalid,
                md: md.clone(),
                path: None,
                name: None,
                env: None,
                listing: None,
                dir: None,
            });
        };
        let act_r = move || match restored {
            Restored::Keep => Ok(RestoredLayerAction::KeepLayer),
            Restored::Delete => Ok(RestoredLayerAction::DeleteLayer),
            Restored::Err => Err(SimErr(err_code(id, 0))),
        };
        let act_i = || -> Result<InvalidMetadataAction<M>, SimErr> {
            match invalid {
                Invalid::Delete => Ok(InvalidMetadataAction::DeleteLayer),
                Invalid::Replace(m) => Ok(InvalidMetadataAction::ReplaceMetadata(M::from_val(m))),
                Invalid::Err => Err(SimErr(err_code(id, 1))),
            }
        };
        // the four encodings of each callback's return value
        let r_bare = |md: &M, p: &Path| -> RestoredLayerAction {
            log_r(md, p);
            act_r().unwrap_or(RestoredLayerAction::DeleteLayer)
        };
        let r_res = |md: &M, p: &Path| -> Result<RestoredLayerAction, SimErr> {
            log_r(md, p);
            act_r()
        };
        let r_tup = |md: &M, p: &Path| -> (RestoredLayerAction, u32) {
            log_r(md, p);
            (act_r().unwrap_or(RestoredLayerAction::DeleteLayer), cr)
        };
        let r_restup = |md: &M, p: &Path| -> Result<(RestoredLayerAction, u32), SimErr> {
            log_r(md, p);
            act_r().map(|a| (a, cr))
        };
        let i_bare = |md: &GenericMetadata| -> InvalidMetadataAction<M> {
            log_i(md);
            act_i().unwrap_or(InvalidMetadataAction::DeleteLayer)
        };
        let i_res = |md: &GenericMetadata| -> Result<InvalidMetadataAction<M>, SimErr> {
            log_i(md);
            act_i()
        };
        let i_tup = |md: &GenericMetadata| -> (InvalidMetadataAction<M>, u32) {
            log_i(md);
            (act_i().unwrap_or(InvalidMetadataAction::DeleteLayer), ci)
        };
        let i_restup = |md: &GenericMetadata| -> Result<(InvalidMetadataAction<M>, u32), SimErr> {
            log_i(md);
            act_i().map(|a| (a, ci))
        };
        macro_rules! call {
            ($inv:expr, $res:expr) => {
                conv_ref(self.ctx.cached_layer(
                    name,
                    CachedLayerDefinition {
                        build,
                        launch,
                        invalid_metadata_action: &$inv,
                        restored_layer_action: &$res,
                    },
                ))
            };
        }
        match (enc_i, enc_r) {
            (Enc::Bare, Enc::Bare) => call!(i_bare, r_bare),
            (Enc::Bare, Enc::Res) => call!(i_bare, r_res),
            (Enc::Bare, Enc::Tuple) => call!(i_bare, r_tup),
            (Enc::Bare, Enc::ResTuple) => call!(i_bare, r_restup),
            (Enc::Res, Enc::Bare) => call!(i_res, r_bare),
            (Enc::Res, Enc::Res) => call!(i_res, r_res),
            (Enc::Res, Enc::Tuple) => call!(i_res, r_tup),
            (Enc::Res, Enc::ResTuple) => call!(i_res, r_restup),
            (Enc::Tuple, Enc::Bare) => call!(i_tup, r_bare),
            (Enc::Tuple, Enc::Res) => call!(i_tup, r_res),
            (Enc::Tuple, Enc::Tuple) => call!(i_tup, r_tup),
            (Enc::Tuple, Enc::ResTuple) => call!(i_tup, r_restup),
            (Enc::ResTuple, Enc::Bare) => call!(i_restup, r_bare),
            (Enc::ResTuple, Enc::Res) => call!(i_restup, r_res),
            (Enc::ResTuple, Enc::Tuple) => call!(i_restup, r_tup),
            (Enc::ResTuple, Enc::ResTuple) => call!(i_restup, r_restup),
        }
    }

    #[allow(clippy::too_many_arguments)]
    fn run_handle<M: MetaT>(
        &self,
        id: u32,
        layer: usize,
        types: LayerTypes,
        types_after: Option<LayerTypes>,
        strategy: Strategy,
        migration: &Migration,
        res: &ResSpec,
        log: &RefCell<Vec<LoggedCb>>,
    ) -> Observed {
        let sim = SimLayer::<M> {
            id,
            types: std::cell::Cell::new(types),
            types_after,
            strategy,
            migration,
            res,
            log,
            sources: (0..EXECD_SOURCES + 2).map(|i| self.source_path(i)).collect(),
            _m: PhantomData,
        };
        match self.ctx.handle_layer(self.names[layer].clone(), sim) {
            Ok(data) => Observed::TraitOk {
                name: data.name.to_string(),
                path: data.path.clone(),
                types: data
                    .content_metadata
                    .types
                    .map(|t| (t.build, t.launch, t.cache)),
                meta: data.content_metadata.metadata.to_val().table(),
                env: Box::new(data.env),
            },
            Err(libcnb::Error::BuildpackError(SimErr(c))) => Observed::ErrBuildpack(c),
            Err(other) => Observed::ErrOther(format!("{other}")),
        }
    }
}

fn unit(r: Result<(), ObsErr>) -> Observed {
    match r {
        Ok(()) => Observed::UnitOk,
        Err(ObsErr::Buildpack(c)) => Observed::ErrBuildpack(c),
        Err(ObsErr::Other(s)) => Observed::ErrOther(s),
    }
}

fn harness(r: std::io::Result<()>) {
    if let Err(e) = r {
        // a failing harness-side mutation is a harness error, never a violation
        eprintln!("HARNESS-ERROR: file operation of the simulator failed: {e}");
        std::process::exit(2);
    }
}

fn remove_any(path: &Path) -> std::io::Result<()> {
    match fs::symlink_metadata(path) {
        Err(_) => Ok(()),
        Ok(m) if m.is_dir() => {
            fs::set_permissions(path, fs::Permissions::from_mode(0o755))?;
            snap::wipe(path)?;
            fs::remove_dir(path)
        }
        Ok(_) => fs::remove_file(path),
    }
}

fn write_file(base: &Path, f: &FileSpec) -> std::io::Result<()> {
    let full = base.join(OsStr::from_bytes(&f.path));
    if let Some(parent) = full.parent() {
        fs::create_dir_all(parent)?;
    }
    if let Ok(m) = fs::symlink_metadata(&full) {
        if m.is_file() {
            // overwrite regardless of the old mode
            fs::remove_file(&full)?;
        }
    }
    fs::write(&full, &f.data)?;
    fs::set_permissions(&full, fs::Permissions::from_mode(f.mode))
}

struct SimLayer<'a, M> {
    id: u32,
    types: std::cell::Cell<LayerTypes>,
    types_after: Option<LayerTypes>,
    strategy: Strategy,
    migration: &'a Migration,
    res: &'a ResSpec,
    log: &'a RefCell<Vec<LoggedCb>>,
    sources: Vec<PathBuf>,
    _m: PhantomData<M>,
}

impl<M: MetaT> SimLayer<'_, M> {
    /// the layer learns its types while it is being handled
    fn learn_types(&self) {
        if let Some(t) = self.types_after {
            self.types.set(t);
        }
    }

    fn produce(&self, layer_path: &Path) -> Result<LayerResult<M>, SimErr> {
        if self.res.fail {
            return Err(SimErr(err_code(self.id, 2)));
        }
        for f in &self.res.files {
            if write_file(layer_path, f).is_err() {
                // The buildpack's own write failed: under an injected fault it may be the
                // faulted call; without one the directory libcnb handed to the callback is
                // not in the state it promised (e.g. left-overs of an incomplete delete).
                // Either way a buildpack would propagate its error; the checker then sees a
                // buildpack error where the model expects none and reports it.
                return Err(SimErr(err_code(self.id, 6)));
            }
        }
        let mut execd = HashMap::new();
        for p in &self.res.execd {
            execd.insert(p.name.clone(), self.sources[p.source.min(self.sources.len() - 1)].clone());
        }
        Ok(LayerResult {
            metadata: M::from_val(&self.res.meta),
            env: self.res.env.as_ref().map(|e| layer_env_from_spec(e)),
            exec_d_programs: execd,
            sboms: sboms_from_spec(&self.res.sboms),
        })
    }
}

impl<M: MetaT> Layer for SimLayer<'_, M> {
    type Buildpack = SimBp;
    type Metadata = M;

    fn types(&self) -> LayerTypes {
        self.types.get()
    }

    fn create(
        &mut self,
        _context: &BuildContext<SimBp>,
        layer_path: &Path,
    ) -> Result<LayerResult<M>, SimErr> {
        let listing = fs::read_dir(layer_path)
            .map(|rd| rd.flatten().map(|e| e.file_name()).collect::<Vec<_>>())
            .ok();
        self.log.borrow_mut().push(LoggedCb {
            kind: CbKind::Create,
            md: None,
            path: Some(layer_path.to_path_buf()),
            name: None,
            env: None,
            listing,
            dir: None,
        });
        self.learn_types();
        self.produce(layer_path)
    }

    fn existing_layer_strategy(
        &mut self,
        _context: &BuildContext<SimBp>,
        layer_data: &LayerData<M>,
    ) -> Result<ExistingLayerStrategy, SimErr> {
        self.log.borrow_mut().push(LoggedCb {
            kind: CbKind::Strategy,
            md: layer_data.content_metadata.metadata.to_val().table(),
            path: Some(layer_data.path.clone()),
            name: Some(layer_data.name.to_string()),
            env: Some(layer_data.env.clone()),
            listing: None,
            dir: Snap::take(&layer_data.path).ok(),
        });
        self.learn_types();
        match self.strategy {
            Strategy::Keep => Ok(ExistingLayerStrategy::Keep),
            Strategy::Update => Ok(ExistingLayerStrategy::Update),
            Strategy::Recreate => Ok(ExistingLayerStrategy::Recreate),
            Strategy::Err => Err(SimErr(err_code(self.id, 0))),
        }
    }

    fn update(
        &mut self,
        _context: &BuildContext<SimBp>,
        layer_data: &LayerData<M>,
    ) -> Result<LayerResult<M>, SimErr> {
        self.log.borrow_mut().push(LoggedCb {
            kind: CbKind::Update,
            md: layer_data.content_metadata.metadata.to_val().table(),
            path: Some(layer_data.path.clone()),
            name: Some(layer_data.name.to_string()),
            env: Some(layer_data.env.clone()),
            listing: None,
            dir: Snap::take(&layer_data.path).ok(),
        });
        self.learn_types();
        self.produce(&layer_data.path)
    }

    fn migrate_incompatible_metadata(
        &mut self,
        _context: &BuildContext<SimBp>,
        metadata: &GenericMetadata,
    ) -> Result<MetadataMigration<M>, SimErr> {
        self.log.borrow_mut().push(LoggedCb {
            kind: CbKind::Migration,
            md: metadata.clone(),
            path: None,
            name: None,
            env: None,
            listing: None,
            dir: None,
        });
        match self.migration {
            Migration::Recreate => Ok(MetadataMigration::RecreateLayer),
            Migration::Replace(m) => Ok(MetadataMigration::ReplaceMetadata(M::from_val(m))),
            Migration::Err => Err(SimErr(err_code(self.id, 1))),
        }
    }
}
