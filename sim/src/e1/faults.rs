//! C12 (in-process part): enumerate every fault position of an operation on a prepared state.

pub fn run_check(_tier: &str) -> i32 {
    eprintln!("HARNESS-ERROR: C12 not built yet");
    2
}
pub fn worker(_args: &[String]) -> i32 {
    2
}
pub fn replay_worker(_args: &[String]) -> i32 {
    2
}
