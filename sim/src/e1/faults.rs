//! C12 (in-process part): for sampled (prepared state, operation) pairs, enumerate EVERY position
//! k of the file-system calls the operation makes × errno ∈ {EIO, EACCES, ENOSPC, ENOTDIR}; the call must
//! return an error or leave exactly the directory the fault-free call produces.

use super::exec::{FAULT_MODE, LoggedCb, Observed, World};
use super::generate::{self, Class};
use super::model::{ExpResult, Model};
use super::ops::{History, Op};
use crate::evidence::Evidence;
use crate::known::Known;
use crate::pool;
use crate::rng::{run_seed, splitmix64};
use crate::shimapi::{Fault, MODE_COUNT, MODE_ERROR, Shim, Stats};
use crate::snap::{self, Snap};
use serde::{Deserialize, Serialize};
use serde_json::json;
use std::cell::RefCell;
use std::collections::{BTreeMap, BTreeSet};
use std::os::unix::ffi::OsStrExt;
use std::path::{Path, PathBuf};
use std::sync::atomic::Ordering;
use std::time::Instant;

pub const ERRNOS: [(i32, &str); 4] = [(libc::EIO, "EIO"), (libc::EACCES, "EACCES"), (libc::ENOSPC, "ENOSPC"), (libc::ENOTDIR, "ENOTDIR")];

#[derive(Clone, Debug, Serialize, Deserialize)]
pub struct FaultReplay {
    pub engine: String,
    pub property: String,
    pub seed: u64,
    pub pair_index: u64,
    pub history: History,
    /// index of the faulted operation in history.ops (all earlier ops are the fault-free prefix)
    pub target: usize,
    pub k: i64,
    pub errno: i32,
    pub errno_name: String,
    pub faulted_call: String,
    pub signature: String,
    pub detail: Vec<String>,
    pub shim_ring: String,
    pub minimised_from_steps: usize,
    /// C11 under faults: judge the frame (everything outside the layer) instead of the result
    #[serde(default)]
    pub frame_mode: bool,
}

#[derive(Clone, Debug, Default, Serialize, Deserialize)]
pub struct FaultSummary {
    pub pairs: u64,
    pub pairs_skipped_no_success: u64,
    pub pairs_skipped_disabled: u64,
    pub executions: u64,
    pub fired: u64,
    pub outcome_err: u64,
    pub outcome_ok_same_state: u64,
    pub fired_by_call: BTreeMap<String, u64>,
    pub fired_by_errno: BTreeMap<String, u64>,
    pub cells: BTreeSet<String>,
    pub targets_by_kind: BTreeMap<String, u64>,
    pub calls_per_op_max: i64,
    pub calls_total: i64,
    pub violations: Vec<FaultReplay>,
    pub harness_errors: Vec<String>,
    pub samples: Vec<serde_json::Value>,
}

impl FaultSummary {
    fn merge(&mut self, o: FaultSummary) {
        self.pairs += o.pairs;
        self.pairs_skipped_no_success += o.pairs_skipped_no_success;
        self.pairs_skipped_disabled += o.pairs_skipped_disabled;
        self.executions += o.executions;
        self.fired += o.fired;
        self.outcome_err += o.outcome_err;
        self.outcome_ok_same_state += o.outcome_ok_same_state;
        for (k, v) in o.fired_by_call {
            *self.fired_by_call.entry(k).or_insert(0) += v;
        }
        for (k, v) in o.fired_by_errno {
            *self.fired_by_errno.entry(k).or_insert(0) += v;
        }
        self.cells.extend(o.cells);
        for (k, v) in o.targets_by_kind {
            *self.targets_by_kind.entry(k).or_insert(0) += v;
        }
        self.calls_per_op_max = self.calls_per_op_max.max(o.calls_per_op_max);
        self.calls_total += o.calls_total;
        self.violations.extend(o.violations);
        self.harness_errors.extend(o.harness_errors);
        if self.samples.len() < 3 {
            self.samples.extend(o.samples);
            self.samples.truncate(3);
        }
    }
}

struct SendPtr<T>(*mut T);
// SAFETY: the pointee is only touched by the spawned thread while the spawning thread is
// blocked in join(); this is a hand-rolled scoped thread whose only purpose is to give the
// code under test a fresh thread (fresh, seed-determined hash keys).
unsafe impl<T> Send for SendPtr<T> {}

/// Execute `op` on a fresh thread whose hash keys derive from `seed`, with the shim armed.
fn exec_on_fresh_thread(
    world: &mut World,
    model_after: &Model,
    op: &Op,
    shim: &Shim,
    seed: u64,
    fault: &Fault,
    rdseed: u64,
) -> Result<(Observed, Stats), String> {
    crate::watchdog::tick();
    shim.set_random(seed, true);
    let wp = SendPtr(std::ptr::from_mut(world));
    let mp = SendPtr(std::ptr::from_ref(model_after).cast_mut());
    let op2 = op.clone();
    let shim2 = *shim;
    let fault2 = fault.clone();
    let root = world.root.clone();
    let handle = std::thread::Builder::new()
        .stack_size(8 << 20)
        .spawn(move || {
            let wp = wp;
            let mp = mp;
            // SAFETY: see SendPtr.
            let world: &mut World = unsafe { &mut *wp.0 };
            // SAFETY: see SendPtr; only read.
            let model: &Model = unsafe { &*mp.0 };
            let log: RefCell<Vec<LoggedCb>> = RefCell::new(Vec::new());
            shim2.begin(&root, &fault2, rdseed, 0, 0);
            let obs = world.exec(&op2, model, &log);
            let st = shim2.end();
            (obs, st)
        })
        .map_err(|e| e.to_string())?;
    let out = handle.join();
    shim.set_random(0, false);
    match out {
        Ok(v) => Ok(v),
        Err(_) => {
            let _ = shim.end();
            Err("the code under test panicked under an injected fault".into())
        }
    }
}

struct Prepared {
    world: World,
    model_before: Model,
    model_after: Model,
    s0: Snap,
    target: Op,
}

/// Run the fault-free prefix and stop in front of the target operation.
fn prepare(history: &History, target: usize, root: &Path, shim: &Shim, seed: u64) -> Result<Option<Prepared>, String> {
    let root_abs = root.as_os_str().as_bytes().to_vec();
    let mut model = Model::new(&root_abs, history);
    let mut world = World::create(root, &model.snap, &history.layers).map_err(|e| e.to_string())?;
    for (i, op) in history.ops.iter().enumerate().take(target) {
        if !model.enabled(op) {
            continue;
        }
        let exp = model.apply(op);
        let rdseed = splitmix64(seed ^ (i as u64) << 8) | 1;
        let (_obs, _st) = exec_on_fresh_thread(&mut world, &model, op, shim, seed ^ i as u64, &Fault::none(), rdseed)?;
        let actual = world.snapshot().map_err(|e| e.to_string())?;
        // the prefix is not judged here (C01/C02/C03 do that); keep the model exactly in step
        let _ = exp;
        model.snap = actual;
    }
    let op = &history.ops[target];
    if !model.enabled(op) {
        return Ok(None);
    }
    let s0 = world.snapshot().map_err(|e| e.to_string())?;
    let model_before = model.clone();
    let mut model_after = model;
    let exp = model_after.apply(op);
    if matches!(exp.result, ExpResult::NoCall) {
        return Ok(None);
    }
    Ok(Some(Prepared {
        world,
        model_before,
        model_after,
        s0,
        target: op.clone(),
    }))
}

fn restore_state(p: &mut Prepared) -> Result<(), String> {
    snap::wipe(&p.world.root).map_err(|e| e.to_string())?;
    snap::materialise(&p.world.root, &p.s0).map_err(|e| e.to_string())
}

pub struct PairOutcome {
    pub n_calls: i64,
    pub violation: Option<(i64, i32, String, Vec<String>, String)>, // k, errno, call, detail, ring
    pub executions: u64,
    pub fired: Vec<(String, i32, bool)>, // call kind, errno, outcome_err
    pub skipped_no_success: bool,
    pub pre_class: String,
}

/// Enumerate every fault position of the target op. `only` restricts to one (k, errno).
#[allow(dead_code)]
fn enumerate(p: &mut Prepared, shim: &Shim, seed: u64, only: Option<(i64, i32)>) -> Result<PairOutcome, String> {
    enumerate_mode(p, shim, seed, only, false)
}

/// `frame_mode`: whatever the faulted call returns, everything outside the requested layer
/// (other layers, foreign entries, the canary trees incl. modes and link targets) must be
/// exactly as before the call (C11 under faults).
fn enumerate_mode(p: &mut Prepared, shim: &Shim, seed: u64, only: Option<(i64, i32)>, frame_mode: bool) -> Result<PairOutcome, String> {
    let rdseed = splitmix64(seed ^ 0xfa17) | 1;
    let hseed = seed ^ 0x7a26e7;
    let count_fault = Fault {
        at: 0,
        errno: libc::EIO,
        mode: MODE_COUNT,
    };
    let target = p.target.clone();
    let model_after = p.model_after.clone();
    let pre_class = target
        .layer()
        .map(|l| p.model_before.pre_class(l, super::ops::MetaKind::Generic))
        .unwrap_or_default();
    let (obs_ok, st_ok) = exec_on_fresh_thread(&mut p.world, &model_after, &target, shim, hseed, &count_fault, rdseed)?;
    let mut out = PairOutcome {
        n_calls: st_ok.matched,
        violation: None,
        executions: 1,
        fired: Vec::new(),
        skipped_no_success: false,
        pre_class,
    };
    if !obs_ok.is_ok() && !frame_mode {
        out.skipped_no_success = true;
        return Ok(out);
    }
    let s_ok = p.world.snapshot().map_err(|e| e.to_string())?;
    let frame_before = target
        .layer()
        .map(|l| super::check::strip_layer(&p.model_before, l, &p.s0));
    let n = st_ok.matched;
    for k in 1..=n {
        for (errno, _name) in ERRNOS {
            if let Some((ok, oe)) = only {
                if ok != k || oe != errno {
                    continue;
                }
            }
            restore_state(p)?;
            // layer references obtained before the target stay valid (they are names)
            FAULT_MODE.store(true, Ordering::SeqCst);
            let fault = Fault {
                at: k,
                errno,
                mode: MODE_ERROR,
            };
            let r = exec_on_fresh_thread(&mut p.world, &model_after, &target, shim, hseed, &fault, rdseed);
            FAULT_MODE.store(false, Ordering::SeqCst);
            let (obs, st) = r?;
            out.executions += 1;
            if !st.fired {
                return Err(format!(
                    "fault {k}/{n} did not fire on re-execution of {} (the simulator lost determinism)",
                    target.kind_name()
                ));
            }
            let is_err = !obs.is_ok();
            out.fired.push((st.fired_call.clone(), errno, is_err));
            if frame_mode {
                if let (Some(l), Some(before)) = (target.layer(), &frame_before) {
                    let s_k = p.world.snapshot().map_err(|e| e.to_string())?;
                    let after = super::check::strip_layer(&p.model_before, l, &s_k);
                    if after != *before {
                        let lines = snap::diff(before, &after, &|_, _, _| None, &[]);
                        let mut detail = vec![format!(
                            "{} touched something outside the layer when its file-system call #{k} of {n} ({}) failed with errno {errno} (call returned {}):",
                            target.kind_name(),
                            st.fired_call,
                            if is_err { "an error" } else { "success" }
                        )];
                        detail.extend(lines.into_iter().take(8));
                        out.violation = Some((k, errno, st.fired_call.clone(), detail, shim.ring()));
                        return Ok(out);
                    }
                }
                continue;
            }
            if !is_err {
                let s_k = p.world.snapshot().map_err(|e| e.to_string())?;
                if s_k != s_ok {
                    let lines = snap::diff(&s_ok, &s_k, &|_, _, _| None, &[]);
                    let mut detail = vec![format!(
                        "{} returned success although its file-system call #{k} of {n} ({}) failed with errno {errno}; directory differs from the fault-free result:",
                        target.kind_name(),
                        st.fired_call
                    )];
                    detail.extend(lines.into_iter().take(8));
                    out.violation = Some((k, errno, st.fired_call.clone(), detail, shim.ring()));
                    return Ok(out);
                }
            }
        }
    }
    Ok(out)
}

fn pick_target(history: &History) -> Option<usize> {
    // the last operation that calls into libcnb
    history.ops.iter().rposition(|op| {
        matches!(
            op,
            Op::Cached { .. }
                | Op::Uncached { .. }
                | Op::Handle { .. }
                | Op::WriteMetadata { .. }
                | Op::WriteEnv { .. }
                | Op::ReadEnv { .. }
                | Op::EnvCycle { .. }
                | Op::WriteSboms { .. }
                | Op::WriteExecD { .. }
        )
    })
}

fn signature(target: &Op, call: &str) -> String {
    format!("I-fault:{}:{}", target.kind_name(), call)
}

pub fn worker_pairs(global_seed: u64, from: u64, to: u64, scratch: &Path, shim: &Shim, max_steps: usize) -> FaultSummary {
    worker_pairs_mode(global_seed, from, to, scratch, shim, max_steps, false)
}

fn pick_deleting_target(history: &History) -> Option<usize> {
    // the last request whose model path deletes or recreates the layer
    let mut model = Model::new(b"/ROOT", history);
    let mut found = None;
    for (i, op) in history.ops.iter().enumerate() {
        if !model.enabled(op) {
            continue;
        }
        let exp = model.apply(op);
        if op.is_request() && (exp.path.contains("delete") || exp.path.contains("recreate")) {
            found = Some(i);
        }
    }
    found
}

pub fn worker_pairs_mode(global_seed: u64, from: u64, to: u64, scratch: &Path, shim: &Shim, max_steps: usize, frame_mode: bool) -> FaultSummary {
    let mut sum = FaultSummary::default();
    for j in from..to {
        if sum.violations.len() >= 3 {
            break;
        }
        let seed = run_seed(global_seed, if frame_mode { "e1-fault-frame" } else { "e1-fault" }, j);
        let (mut history, _sw) = generate::gen_history(seed, if frame_mode { Class::C11 } else { Class::Mixed }, max_steps);
        let picked = if frame_mode { pick_deleting_target(&history) } else { pick_target(&history) };
        let Some(target) = picked else {
            sum.pairs_skipped_disabled += 1;
            continue;
        };
        history.ops.truncate(target + 1);
        let root = super::world_root(scratch, "w", seed);
        let mut prepared = match prepare(&history, target, &root, shim, seed) {
            Ok(Some(p)) => p,
            Ok(None) => {
                sum.pairs_skipped_disabled += 1;
                continue;
            }
            Err(e) => {
                sum.harness_errors.push(format!("pair {j}: {e}"));
                continue;
            }
        };
        match enumerate_mode(&mut prepared, shim, seed, None, frame_mode) {
            Err(e) => {
                if e.contains("panicked") {
                    sum.violations.push(FaultReplay {
                        frame_mode,
                        engine: "e1-fault".into(),
                        property: if frame_mode { "C11".into() } else { "C12".into() },
                        seed,
                        pair_index: j,
                        minimised_from_steps: history.ops.len(),
                        history: history.clone(),
                        target,
                        k: 0,
                        errno: 0,
                        errno_name: String::new(),
                        faulted_call: String::new(),
                        signature: "I-fault:panic".into(),
                        detail: vec![e],
                        shim_ring: shim.ring(),
                    });
                } else {
                    sum.harness_errors.push(format!("pair {j}: {e}"));
                }
            }
            Ok(o) => {
                sum.pairs += 1;
                sum.executions += o.executions;
                *sum.targets_by_kind.entry(history.ops[target].kind_name().to_string()).or_insert(0) += 1;
                if o.skipped_no_success {
                    sum.pairs_skipped_no_success += 1;
                    continue;
                }
                sum.calls_per_op_max = sum.calls_per_op_max.max(o.n_calls);
                sum.calls_total += o.n_calls;
                for (call, errno, is_err) in &o.fired {
                    sum.fired += 1;
                    *sum.fired_by_call.entry(call.clone()).or_insert(0) += 1;
                    let en = ERRNOS.iter().find(|(e, _)| e == errno).map_or("?", |(_, n)| n);
                    *sum.fired_by_errno.entry(en.to_string()).or_insert(0) += 1;
                    if *is_err {
                        sum.outcome_err += 1;
                    } else {
                        sum.outcome_ok_same_state += 1;
                    }
                    let shape: String = o.pre_class.split('/').take(2).collect::<Vec<_>>().join("/");
                    sum.cells
                        .insert(format!("{}|{}|{}|{}", history.ops[target].kind_name(), shape, call, en));
                }
                if sum.samples.len() < 2 && o.n_calls > 3 {
                    sum.samples.push(json!({
                        "pair_index": j, "seed": seed,
                        "prefix": history.ops[..target].iter().map(super::brief).collect::<Vec<_>>(),
                        "target": super::brief(&history.ops[target]),
                        "fs_calls_of_target": o.n_calls,
                        "faulted_executions": o.executions - 1,
                        "fired": o.fired.iter().take(12).map(|(c, e, err)| format!("{c}/{e}->{}", if *err {"Err"} else {"Ok,same state"})).collect::<Vec<_>>(),
                    }));
                }
                if let Some((k, errno, call, detail, ring)) = o.violation {
                    if sum.violations.len() < 3 {
                        sum.violations.push(FaultReplay {
                            frame_mode,
                            engine: "e1-fault".into(),
                            property: if frame_mode { "C11".into() } else { "C12".into() },
                            seed,
                            pair_index: j,
                            minimised_from_steps: history.ops.len(),
                            signature: if frame_mode {
                                format!("I-frame-under-fault:{}:{}", history.ops[target].kind_name(), call)
                            } else {
                                signature(&history.ops[target], &call)
                            },
                            history: history.clone(),
                            target,
                            k,
                            errno,
                            errno_name: ERRNOS.iter().find(|(e, _)| *e == errno).map_or("?", |(_, n)| n).to_string(),
                            faulted_call: call,
                            detail,
                            shim_ring: ring,
                        });
                    }
                }
            }
        }
        let _ = snap::wipe(&root);
    }
    sum
}

/// Drop prefix steps while some fault position still yields the same violation shape.
fn minimise(rep: &FaultReplay, scratch: &Path, shim: &Shim) -> FaultReplay {
    let mut best = rep.clone();
    if rep.signature == "I-fault:crash" {
        // every candidate would have to run in its own process; keep the history as found
        return best;
    }
    let root = super::world_root(scratch, "min", rep.seed);
    let mut i = 0;
    while i < best.target {
        let mut cand = best.clone();
        cand.history.ops.remove(i);
        cand.target -= 1;
        let found = (|| -> Option<(i64, i32, String, Vec<String>, String)> {
            let mut p = prepare(&cand.history, cand.target, &root, shim, cand.seed).ok()??;
            let o = enumerate_mode(&mut p, shim, cand.seed, None, cand.frame_mode).ok()?;
            o.violation
        })();
        match found {
            Some((k, errno, call, detail, ring))
                if rep.frame_mode || signature(&cand.history.ops[cand.target], &call) == rep.signature =>
            {
                cand.k = k;
                cand.errno = errno;
                cand.errno_name = ERRNOS.iter().find(|(e, _)| *e == errno).map_or("?", |(_, n)| n).to_string();
                cand.faulted_call = call;
                cand.detail = detail;
                cand.shim_ring = ring;
                best = cand;
            }
            _ => i += 1,
        }
    }
    let _ = snap::wipe(&root);
    best
}

fn replay_once(rep: &FaultReplay, scratch: &Path, shim: &Shim) -> serde_json::Value {
    let root = super::world_root(scratch, "replay", rep.seed);
    let res = (|| -> Result<Option<(i64, i32, String, Vec<String>, String)>, String> {
        let Some(mut p) = prepare(&rep.history, rep.target, &root, shim, rep.seed)? else {
            return Ok(None);
        };
        // a recorded crash/hang has no single fault position: the whole enumeration is re-run
        // (reproduced iff this process dies again; the caller sees that)
        let only = if rep.signature == "I-fault:crash" { None } else { Some((rep.k, rep.errno)) };
        let o = enumerate_mode(&mut p, shim, rep.seed, only, rep.frame_mode)?;
        Ok(o.violation)
    })();
    let _ = snap::wipe(&root);
    match res {
        Ok(Some((k, errno, call, detail, _))) => json!({
            "reproduced": k == rep.k && errno == rep.errno && call == rep.faulted_call,
            "k": k, "errno": errno, "faulted_call": call, "detail": detail,
        }),
        Ok(None) => json!({"reproduced": false}),
        Err(e) => json!({"reproduced": e.contains("panicked") && rep.signature == "I-fault:panic", "error": e}),
    }
}

fn harness_fail(msg: &str) -> ! {
    eprintln!("HARNESS-ERROR: {msg}");
    std::process::exit(2);
}

fn arg_after(args: &[String], flag: &str) -> Option<String> {
    args.iter().position(|a| a == flag).and_then(|i| args.get(i + 1).cloned())
}

fn scratch(id: &str) -> PathBuf {
    let d = crate::scratch_root().join(format!("f{id}"));
    std::fs::create_dir_all(&d).unwrap_or_else(|e| harness_fail(&format!("scratch: {e}")));
    d
}

pub fn worker(args: &[String]) -> i32 {
    let shim = Shim::load().unwrap_or_else(|| harness_fail("shim not loaded"));
    if let Some(file) = arg_after(args, "--minimise") {
        let text = std::fs::read_to_string(&file).unwrap_or_else(|e| harness_fail(&e.to_string()));
        let rep: FaultReplay = serde_json::from_str(&text).unwrap_or_else(|e| harness_fail(&e.to_string()));
        let s = scratch("min");
        let min = minimise(&rep, &s, &shim);
        let _ = snap::wipe(&s);
        let _ = std::fs::remove_dir(&s);
        println!("RESULT {}", serde_json::to_string(&min).unwrap_or_default());
        return 0;
    }
    let from: u64 = arg_after(args, "--from").and_then(|s| s.parse().ok()).unwrap_or(0);
    let to: u64 = arg_after(args, "--to").and_then(|s| s.parse().ok()).unwrap_or(0);
    let id = arg_after(args, "--id").unwrap_or_else(|| "0".into());
    let max_steps: usize = arg_after(args, "--max-steps").and_then(|s| s.parse().ok()).unwrap_or(12);
    let frame_mode = args.iter().any(|a| a == "--frame");
    let s = scratch(&id);
    let sum = worker_pairs_mode(crate::global_seed(), from, to, &s, &shim, max_steps, frame_mode);
    let _ = snap::wipe(&s);
    let _ = std::fs::remove_dir(&s);
    println!("RESULT {}", serde_json::to_string(&sum).unwrap_or_default());
    0
}

pub fn replay_worker(args: &[String]) -> i32 {
    let shim = Shim::load().unwrap_or_else(|| harness_fail("shim not loaded"));
    let file = args.get(1).cloned().unwrap_or_default();
    let text = std::fs::read_to_string(&file).unwrap_or_else(|e| harness_fail(&e.to_string()));
    let rep: FaultReplay = serde_json::from_str(&text).unwrap_or_else(|e| harness_fail(&e.to_string()));
    let s = scratch("replay");
    let out = replay_once(&rep, &s, &shim);
    let _ = snap::wipe(&s);
    let _ = std::fs::remove_dir(&s);
    println!("RESULT {}", serde_json::to_string(&out).unwrap_or_default());
    0
}

/// Run fault-enumeration workers; a worker that dies by a signal (the code under test crashed
/// or hung until the watchdog aborted it) is isolated pair by pair and reported as a violation
/// with a replay file instead of failing the whole batch.
fn run_fault_pool(argvs: Vec<Vec<String>>, frame_mode: bool, max_steps: usize) -> (Vec<FaultSummary>, Vec<FaultReplay>) {
    let mut sums = Vec::new();
    let mut crashes = Vec::new();
    let res: Vec<Result<FaultSummary, pool::WorkerFailure>> = pool::run_workers_detailed(argvs, true);
    for r in res {
        match r {
            Ok(s) => sums.push(s),
            Err(f) if f.signal.is_some() => {
                if !crashes.is_empty() {
                    continue;
                }
                match isolate_fault_crash(&f, frame_mode, max_steps) {
                    Some(rep) => crashes.push(rep),
                    None => harness_fail(&format!("fault worker died with signal {:?} but no single pair reproduces it: {}", f.signal, f.output)),
                }
            }
            Err(f) => harness_fail(&format!("worker {:?} failed ({:?}): {}", f.argv, f.code, f.output)),
        }
    }
    (sums, crashes)
}

fn isolate_fault_crash(f: &pool::WorkerFailure, frame_mode: bool, max_steps: usize) -> Option<FaultReplay> {
    let from: u64 = arg_after(&f.argv, "--from")?.parse().ok()?;
    let to: u64 = arg_after(&f.argv, "--to")?.parse().ok()?;
    let mut i = from;
    while i < to {
        let batch: Vec<u64> = (i..to.min(i + 32)).collect();
        let argvs: Vec<Vec<String>> = batch
            .iter()
            .map(|k| {
                let mut v: Vec<String> = ["worker", "e1-fault", "--from", &k.to_string(), "--to", &(k + 1).to_string(), "--id", &format!("iso{k}"), "--max-steps", &max_steps.to_string()]
                    .iter()
                    .map(|s| (*s).to_string())
                    .collect();
                if frame_mode {
                    v.push("--frame".into());
                }
                v
            })
            .collect();
        let res: Vec<Result<FaultSummary, pool::WorkerFailure>> = pool::run_workers_detailed(argvs, true);
        for (k, r) in batch.iter().zip(res) {
            if let Err(fail) = r {
                if fail.signal.is_some() {
                    let seed = run_seed(crate::global_seed(), if frame_mode { "e1-fault-frame" } else { "e1-fault" }, *k);
                    let (mut history, _sw) = generate::gen_history(seed, if frame_mode { Class::C11 } else { Class::Mixed }, max_steps);
                    let target = if frame_mode { pick_deleting_target(&history) } else { pick_target(&history) }?;
                    history.ops.truncate(target + 1);
                    return Some(FaultReplay {
                        frame_mode,
                        engine: "e1-fault".into(),
                        property: if frame_mode { "C11".into() } else { "C12".into() },
                        seed,
                        pair_index: *k,
                        minimised_from_steps: history.ops.len(),
                        history,
                        target,
                        k: 0,
                        errno: 0,
                        errno_name: String::new(),
                        faulted_call: String::new(),
                        signature: "I-fault:crash".into(),
                        detail: vec![format!(
                            "the process executing this history and its fault enumeration died with signal {:?} (the code under test crashed or made no progress until the watchdog aborted it): {}",
                            fail.signal, fail.output
                        )],
                        shim_ring: String::new(),
                    });
                }
            }
        }
        i += 32;
    }
    None
}

/// In-process half of the C12 check; returns (summary, violations reported, known hits).
pub fn run_inprocess(tier: &str) -> (FaultSummary, Vec<(FaultReplay, PathBuf)>, Vec<String>) {
    let pairs: u64 = std::env::var("VERIF_RUNS")
        .ok()
        .and_then(|s| s.parse().ok())
        .unwrap_or(if tier == "thorough" { 60_000 } else { 1_600 });
    let nworkers = pool::workers();
    let mut argvs = Vec::new();
    for (i, (from, to)) in pool::ranges(pairs, nworkers).into_iter().enumerate() {
        argvs.push(
            [
                "worker", "e1-fault", "--from", &from.to_string(), "--to", &to.to_string(), "--id", &i.to_string(),
                "--max-steps", if tier == "thorough" { "20" } else { "12" },
            ]
            .iter()
            .map(|s| (*s).to_string())
            .collect(),
        );
    }
    let (results, crashes) = run_fault_pool(argvs, false, if tier == "thorough" { 20 } else { 12 });
    let mut sum = FaultSummary::default();
    for r in results {
        sum.merge(r);
    }
    sum.violations.extend(crashes);
    if !sum.harness_errors.is_empty() {
        for e in sum.harness_errors.iter().take(5) {
            eprintln!("HARNESS-ERROR: {e}");
        }
        std::process::exit(2);
    }
    let known = Known::load();
    let mut reported = Vec::new();
    let mut known_hits = Vec::new();
    let mut seen: Vec<String> = Vec::new();
    sum.violations.sort_by_key(|v| v.pair_index);
    for v in &sum.violations {
        if seen.contains(&v.signature) || seen.len() >= 3 {
            continue;
        }
        seen.push(v.signature.clone());
        // minimise in a worker process
        let dir = crate::scratch_root();
        let _ = std::fs::create_dir_all(&dir);
        let inp = dir.join(format!("fmin-{}.json", v.pair_index));
        let _ = std::fs::write(&inp, serde_json::to_string(v).unwrap_or_default());
        let argv = vec![
            "worker".to_string(),
            "e1-fault".to_string(),
            "--minimise".to_string(),
            inp.display().to_string(),
        ];
        let min: FaultReplay = match pool::run_workers::<FaultReplay>(vec![argv], true) {
            Ok(mut r) if !r.is_empty() => r.remove(0),
            _ => v.clone(),
        };
        let _ = std::fs::remove_file(&inp);
        if let Some(f) = known.matches("C12", &min.signature) {
            known_hits.push(format!("KNOWN-FINDING: property=C12 {}", f.description));
            continue;
        }
        let rdir = pool::out_root().join("replays");
        let _ = std::fs::create_dir_all(&rdir);
        let text = serde_json::to_string_pretty(&min).unwrap_or_default();
        let path = rdir.join(format!("C12-{:08x}.json", crate::rng::hash_str(&text) & 0xffff_ffff));
        if let Err(e) = std::fs::write(&path, text + "\n") {
            harness_fail(&format!("cannot write replay: {e}"));
        }
        reported.push((min, path));
    }
    (sum, reported, known_hits)
}

/// C11 under faults: fan out, minimise, persist. Returns (summary, replay files written).
pub fn run_frame_faults(tier: &str) -> (FaultSummary, Vec<(FaultReplay, PathBuf)>) {
    let pairs: u64 = std::env::var("VERIF_FRAME_PAIRS")
        .ok()
        .and_then(|s| s.parse().ok())
        .unwrap_or(if tier == "thorough" { 20_000 } else { 600 });
    let mut argvs = Vec::new();
    for (i, (from, to)) in pool::ranges(pairs, pool::workers()).into_iter().enumerate() {
        argvs.push(
            ["worker", "e1-fault", "--frame", "--from", &from.to_string(), "--to", &to.to_string(), "--id", &format!("fr{i}"), "--max-steps", "14"]
                .iter()
                .map(|s| (*s).to_string())
                .collect(),
        );
    }
    let (results, crashes) = run_fault_pool(argvs, true, 14);
    let mut sum = FaultSummary::default();
    for r in results {
        sum.merge(r);
    }
    sum.violations.extend(crashes);
    if let Some(e) = sum.harness_errors.first() {
        harness_fail(e);
    }
    let mut out = Vec::new();
    let mut seen: Vec<String> = Vec::new();
    sum.violations.sort_by_key(|v| v.pair_index);
    for v in &sum.violations {
        if seen.contains(&v.signature) || seen.len() >= 2 {
            continue;
        }
        seen.push(v.signature.clone());
        let dir = crate::scratch_root();
        let _ = std::fs::create_dir_all(&dir);
        let inp = dir.join(format!("frmin-{}.json", v.pair_index));
        let _ = std::fs::write(&inp, serde_json::to_string(v).unwrap_or_default());
        let argv = vec!["worker".to_string(), "e1-fault".to_string(), "--minimise".to_string(), inp.display().to_string()];
        let min: FaultReplay = match pool::run_workers::<FaultReplay>(vec![argv], true) {
            Ok(mut r) if !r.is_empty() => r.remove(0),
            _ => v.clone(),
        };
        let _ = std::fs::remove_file(&inp);
        let rdir = pool::out_root().join("replays");
        let _ = std::fs::create_dir_all(&rdir);
        let text = serde_json::to_string_pretty(&min).unwrap_or_default();
        let path = rdir.join(format!("C11-{:08x}.json", crate::rng::hash_str(&text) & 0xffff_ffff));
        if let Err(e) = std::fs::write(&path, text + "\n") {
            harness_fail(&format!("cannot write replay: {e}"));
        }
        out.push((min, path));
    }
    (sum, out)
}

pub fn run_check(tier: &str) -> i32 {
    let seed = crate::global_seed();
    println!("VERIF_SEED={seed} property=C12 tier={tier} engines=E1(in-process)+E2(phase outputs)");
    let started = Instant::now();
    let (sum, reported, known_hits) = run_inprocess(tier);
    for l in &known_hits {
        println!("{l}");
    }
    for (min, path) in &reported {
        println!(
            "violation: signature={} k={} errno={} ({} -> {} ops)",
            min.signature,
            min.k,
            min.errno_name,
            min.minimised_from_steps,
            min.history.ops.len()
        );
        for d in &min.detail {
            println!("    {d}");
        }
        println!("VIOLATION property=C12 replay={}", path.display());
    }
    // E2 half (phase output writers) is added by the runtime engine when present
    let e2 = crate::e2::faults::run_phase_faults(tier);
    for l in &e2.lines {
        println!("{l}");
    }
    let wall = started.elapsed().as_secs_f64();
    let mut ev = Evidence::new("C12", tier, seed, "fault_enumeration");
    let mut cells = sum.cells.clone();
    cells.extend(e2.cells.iter().cloned());
    ev.cov("evaluations", json!(sum.executions + e2.executions));
    ev.cov("distinct_nontrivial", json!(cells.len()));
    ev.cov("rule", json!("for each sampled (prepared state, operation) pair the fault-free execution is counted under the shim (N matching libc calls beneath the world root), then EVERY k in 1..N x errno in {EIO, EACCES, ENOSPC, ENOTDIR} is executed from the restored state; distinct non-trivial = distinct (operation kind, pre-state shape, faulted libc call, errno) cells in which the fault actually fired. Phase outputs: every fault position of the build/detect output writers in a real buildpack process."));
    ev.cov("samples", json!(sum.samples.iter().cloned().chain(e2.samples.iter().cloned()).collect::<Vec<_>>()));
    ev.cov("exhaustive_per_pair", json!(true));
    ev.cov("pairs", json!(sum.pairs));
    ev.cov("pairs_skipped_fault_free_call_fails", json!(sum.pairs_skipped_no_success));
    ev.cov("pairs_skipped_target_disabled", json!(sum.pairs_skipped_disabled));
    ev.cov("targets_by_operation_kind", json!(sum.targets_by_kind));
    ev.cov("faults_fired", json!({"total": sum.fired + e2.fired, "by_libc_call": sum.fired_by_call, "by_errno": sum.fired_by_errno, "phase_outputs_by_call": e2.fired_by_call}));
    ev.cov("outcomes", json!({"returned_error": sum.outcome_err, "returned_ok_with_identical_directory": sum.outcome_ok_same_state, "phase_exit_nonzero": e2.outcome_err, "phase_exit_zero_identical_outputs": e2.outcome_ok_same}));
    ev.cov("fs_calls_per_operation_max", json!(sum.calls_per_op_max));
    ev.cov("fs_calls_counted_total", json!(sum.calls_total));
    ev.cov("phase_scenarios", json!(e2.scenarios));
    ev.cov("runs_per_hour", json!(((sum.executions + e2.executions) as f64 / wall * 3600.0) as u64));
    ev.cov("simulated_time", json!("no clock involved; one logical step per intercepted libc call"));
    ev.cov("components", json!({"real": crate::evidence::REAL_COMPONENTS, "stub": "lifecycle restorer, scripted buildpack callbacks, stub lifecycle invoking the phase executable"}));
    ev.cov("cells", json!(cells.iter().take(300).collect::<Vec<_>>()));
    ev.cov("known_findings_seen", json!(known_hits));
    ev.assumptions = vec![
        "stat-family calls, close and fsync are not faulted (not in the statement's list; exists() maps failure to absent by design)".into(),
        "ENOENT is never injected (deliberate best-effort deletes excluded by the statement)".into(),
        "pairs whose fault-free execution does not succeed are skipped (no successful reference)".into(),
        "the (state, operation) pairs are sampled; for each pair the enumeration over k x errno is complete".into(),
    ];
    ev.wall_s = wall;
    ev.violations = (reported.len() + e2.violations) as i64;
    if let Err(e) = ev.write() {
        harness_fail(&format!("cannot write evidence: {e}"));
    }
    println!(
        "C12: {} pairs, {} faulted executions ({} fired; {} Err, {} Ok+same state), {} cells; phase outputs: {} scenarios, {} executions; {:.1}s",
        sum.pairs, sum.executions, sum.fired, sum.outcome_err, sum.outcome_ok_same_state, cells.len(), e2.scenarios, e2.executions, wall
    );
    i32::from(!reported.is_empty() || e2.violations > 0)
}
