//! Check driver for the E1-backed properties: fan out to worker processes, aggregate, minimise
//! and persist violations, write evidence.

use super::generate::Class;
use super::{Replay, WorkerSummary};
use crate::evidence::Evidence;
use crate::known::Known;
use crate::pool;
use serde_json::json;
use std::path::PathBuf;
use std::time::Instant;

pub struct E1Check {
    pub property: &'static str,
    pub class: Class,
    pub quick_runs: u64,
    pub thorough_runs: u64,
    /// share of additional Mixed-class runs (same oracle, attribution filtered to the property)
    pub mixed_share: u64,
    pub design_ref: &'static str,
    pub rule: &'static str,
    pub assumptions: &'static [&'static str],
}

pub fn spec(property: &str) -> Option<E1Check> {
    Some(match property {
        "C01" => E1Check {
            property: "C01",
            class: Class::C01,
            quick_runs: 20_000,
            thorough_runs: 600_000,
            mixed_share: 5,
            design_ref: "DESIGN.md section 4 (C01)",
            rule: "seeded histories of struct-API layer requests, LayerRef writes, buildpack file operations and stub-lifecycle restores over up to 4 layers; distinct = distinct (op kind, decision path, outcome) sequences; non-trivial = contains a request on a layer that already existed after a restore",
            assumptions: &[
                "layer names from a fixed pool incl. dotted and prefix-related names ([a-z0-9._-]{1,12}), pairwise distinct",
                "layer TOML written by libcnb and the stub restorer; the harness only changes its mode, replaces it by a link to a live TOML file, or (C20 scenarios) truncates it",
                "metadata types used by the harness: generic, two that deny unknown fields, one that ignores unknown keys, one that TOML cannot represent (write must fail)",
                "the stub lifecycle stands in for the platform; oracles compare pre- and post-request state, so they do not depend on the stub being faithful",
                "harness runs as uid 0 on tmpfs",
            ],
        },
        "C02" => E1Check {
            property: "C02",
            class: Class::C02,
            quick_runs: 20_000,
            thorough_runs: 600_000,
            mixed_share: 5,
            design_ref: "DESIGN.md section 4 (C02)",
            rule: "seeded histories of trait-API handle_layer calls (strategy keep/update/recreate/error, migration recreate/replace/error, results with env for all four scopes, exec.d, SBOMs, files) interleaved with restores; distinct/non-trivial as for C01",
            assumptions: &[
                "callbacks keep their own files outside env*/ and exec.d/",
                "call counts are asserted for create/update only",
                "layer names from a fixed pool incl. dotted and prefix-related names",
            ],
        },
        "C03" => E1Check {
            property: "C03",
            class: Class::C03,
            quick_runs: 30_000,
            thorough_runs: 800_000,
            mixed_share: 10,
            design_ref: "DESIGN.md section 4 (C03)",
            rule: "sequences WriteEnv(E1); WriteEnv(E2); ...; ReadEnv and model-written spec-shaped directories followed by ReadEnv, names = non-empty byte strings without '/' and NUL, values arbitrary bytes; distinct = distinct op/outcome sequences; non-trivial = at least two env writes or a spec directory before a read (counted per history containing >= 2 env-affecting steps)",
            assumptions: &[
                "suffix-less files only with dot-free names",
                "NAME and NAME.override never both present",
                "names never start with a dot when suffix-less",
            ],
        },
        "C10" => E1Check {
            property: "C10",
            class: Class::C10,
            quick_runs: 10_000,
            thorough_runs: 400_000,
            mixed_share: 10,
            design_ref: "DESIGN.md section 4 (C10)",
            rule: "seeded assignments of {absent, dir, file, link-to-dir, link-to-file, dangling} to bin/lib/include/pkgconfig combined with explicit env entries and probe start environments, read->write cycles and trait-API keep; distinct = distinct op/outcome sequences",
            assumptions: &[
                "implicit entries apply after 'all' and the scope delta (order named by the anchors)",
            ],
        },
        "C11" => E1Check {
            property: "C11",
            class: Class::C11,
            quick_runs: 10_000,
            thorough_runs: 300_000,
            mixed_share: 10,
            design_ref: "DESIGN.md section 4 (C11)",
            rule: "seeded hostile layer trees (nesting to depth 6, modes 0555/0666/0000/0311, symlinks to files and directories outside, relative/absolute, dangling, cycles, the layer path itself a symlink) followed by deleting requests, with canary trees and sibling layers snapshotted including modes and link targets",
            assumptions: &[
                "a symlinked layer path is only followed by deleting requests",
                "hostile links stay out of env*/ and exec.d/ (stray files named like them, and SBOM/TOML entries that are links, are separate generated states)",
            ],
        },
        _ => return None,
    })
}

fn tier_runs(c: &E1Check, tier: &str) -> u64 {
    let base = if tier == "thorough" { c.thorough_runs } else { c.quick_runs };
    std::env::var("VERIF_RUNS").ok().and_then(|s| s.parse().ok()).unwrap_or(base)
}

pub fn persist_replay(r: &Replay) -> std::io::Result<PathBuf> {
    let dir = pool::out_root().join("replays");
    std::fs::create_dir_all(&dir)?;
    let text = serde_json::to_string_pretty(r)?;
    let h = crate::rng::hash_str(&text);
    let path = dir.join(format!("{}-{:08x}.json", r.property, h & 0xffff_ffff));
    std::fs::write(&path, text + "\n")?;
    Ok(path)
}

fn harness_fail(msg: &str) -> ! {
    eprintln!("HARNESS-ERROR: {msg}");
    std::process::exit(2);
}

pub fn run_check(property: &str, tier: &str) -> i32 {
    let Some(c) = spec(property) else {
        harness_fail(&format!("no E1 check for {property}"));
    };
    let seed = crate::global_seed();
    println!("VERIF_SEED={seed} property={property} tier={tier} engine=E1 class={:?}", c.class);
    let started = Instant::now();
    let nworkers = pool::workers();
    let main_runs = tier_runs(&c, tier);
    let mixed_runs = main_runs * c.mixed_share / 100;
    let mut argvs: Vec<Vec<String>> = Vec::new();
    let mut id = 0;
    for (class, n) in [(c.class, main_runs), (Class::Mixed, mixed_runs)] {
        for (from, to) in pool::ranges(n, nworkers) {
            id += 1;
            argvs.push(
                [
                    "worker", "e1", "--class", &format!("{class:?}"), "--from", &from.to_string(), "--to",
                    &to.to_string(), "--tier", tier, "--props", property, "--id", &id.to_string(),
                ]
                .iter()
                .map(|s| (*s).to_string())
                .collect(),
            );
        }
    }
    let detailed: Vec<Result<WorkerSummary, pool::WorkerFailure>> = pool::run_workers_detailed(argvs, true);
    let mut sum = WorkerSummary::default();
    let mut crashes: Vec<super::Replay> = Vec::new();
    for r in detailed {
        match r {
            Ok(s) => sum.merge(s),
            Err(f) if f.signal.is_some() => {
                // the worker process died: the code under test crashed (stack overflow, abort).
                // Isolate the run, one process per history.
                match isolate_crash(&f, property) {
                    Some(rep) => crashes.push(rep),
                    None => harness_fail(&format!("worker died with signal {:?} but no single run reproduces it: {}", f.signal, f.output)),
                }
            }
            Err(f) => harness_fail(&format!("worker {:?} failed ({:?}): {}", f.argv, f.code, f.output)),
        }
    }
    sum.violations.extend(crashes);
    if !sum.harness_errors.is_empty() {
        for e in sum.harness_errors.iter().take(5) {
            eprintln!("HARNESS-ERROR: {e}");
        }
        return 2;
    }

    // ---- sampled determinism self-test (two executions in different processes/partitions);
    // pointless once the property is already known to be violated on this tree
    let det_runs = if sum.violations.is_empty() {
        match super::selftest::compare(c.class, 96, 3, 2) {
            Ok(n) => n,
            Err(e) => harness_fail(&format!("nondeterminism detected: {e}")),
        }
    } else {
        0
    };

    // ---- violations: minimise, persist, classify against known findings
    let known = Known::load();
    sum.violations.sort_by_key(|v| (v.class != c.class, v.run_index));
    let mut reported = 0;
    let mut known_hits: Vec<String> = Vec::new();
    let mut seen_sigs: Vec<String> = Vec::new();
    for v in &sum.violations {
        if seen_sigs.contains(&v.violation.signature) || seen_sigs.len() >= 3 {
            continue;
        }
        seen_sigs.push(v.violation.signature.clone());
        let min = minimise_in_worker(v);
        let sig = &min.violation.signature;
        if let Some(f) = known.matches(property, sig) {
            let line = format!("KNOWN-FINDING: property={property} {}", f.description);
            if !known_hits.contains(&line) {
                println!("{line}");
                known_hits.push(line);
            }
            continue;
        }
        let path = persist_replay(&min).unwrap_or_else(|e| harness_fail(&format!("cannot write replay: {e}")));
        println!(
            "violation: invariant={} step={} signature={} (seed {} run {} class {:?}; {} -> {} ops)",
            min.violation.invariant,
            min.violation.step,
            sig,
            min.seed,
            min.run_index,
            min.class,
            min.minimised_from_steps,
            min.history.ops.len()
        );
        for d in &min.violation.detail {
            println!("    {d}");
        }
        println!("VIOLATION property={property} replay={}", path.display());
        reported += 1;
    }

    // ---- C11 only: the frame must also hold when a file-system call of the deleting request fails
    let mut frame_faults: Option<super::faults::FaultSummary> = None;
    // (pointless, and possibly very slow, once the fault-free pass already shows the frame broken)
    if property == "C11" && (reported == 0 || std::env::var_os("VERIF_FORCE_FRAME").is_some()) {
        let (fs, reps) = super::faults::run_frame_faults(tier);
        for (min, path) in &reps {
            if let Some(f) = known.matches(property, &min.signature) {
                println!("KNOWN-FINDING: property={property} {}", f.description);
                continue;
            }
            println!("violation: signature={} k={} errno={} ({} -> {} ops)", min.signature, min.k, min.errno_name, min.minimised_from_steps, min.history.ops.len());
            for l in &min.detail {
                println!("    {l}");
            }
            println!("VIOLATION property={property} replay={}", path.display());
            reported += 1;
        }
        frame_faults = Some(fs);
    }

    // ---- evidence
    let wall = started.elapsed().as_secs_f64();
    let mut ev = Evidence::new(property, tier, seed, "exploration");
    let distinct_nontrivial = if property == "C03" || property == "C10" || property == "C11" {
        sum.shapes_all.len()
    } else {
        sum.shapes_nontrivial.len()
    };
    ev.cov("evaluations", json!(sum.runs));
    ev.cov("distinct_nontrivial", json!(distinct_nontrivial));
    ev.cov("rule", json!(c.rule));
    ev.cov("samples", json!(sum.samples));
    ev.cov("states", json!(sum.transitions.iter().map(|t| t.split('|').next().unwrap_or("").to_string()).collect::<std::collections::BTreeSet<_>>().len()));
    ev.cov("transitions", json!(sum.transitions.len()));
    ev.cov("distinct_histories_all", json!(sum.shapes_all.len()));
    ev.cov("steps_executed_logical_time", json!(sum.steps));
    ev.cov("steps_skipped_disabled", json!(sum.skipped));
    ev.cov("libcnb_calls", json!(sum.libcnb_calls));
    ev.cov("ops_by_kind", json!(sum.ops_by_kind));
    ev.cov("runs_per_hour", json!((sum.runs as f64 / wall * 3600.0) as u64));
    ev.cov("seeds_per_hour", json!((sum.runs as f64 / wall * 3600.0) as u64));
    ev.cov("simulated_time", json!("no clock is read on any path under this property; logical steps only"));
    ev.cov(
        "faults_fired",
        json!({
            "short_read_or_write": sum.short_rw,
            "eintr": sum.eintr,
            "readdir_orders_permuted": sum.readdir_perms,
            "hash_keys_reseeded_runs": sum.runs,
            "distinct_hash_iteration_orders_observed": sum.hash_orders.len(),
            "restore_between_builds": sum.ops_by_kind.get("Restore").copied().unwrap_or(0),
            "chaos_runs": sum.chaos_runs,
        }),
    );
    ev.cov("intercepted_fs_calls", json!(sum.fs_calls));
    ev.cov("intercepted_fs_calls_by_kind", json!(sum.per_kind));
    ev.cov("probes", json!(sum.probes));
    ev.cov("determinism_selftest", json!({"runs_executed_twice": det_runs, "event_logs_identical": true}));
    ev.cov("transition_cells", json!(sum.transitions.iter().take(400).collect::<Vec<_>>()));
    ev.cov(
        "components",
        json!({"real": crate::evidence::REAL_COMPONENTS, "stub": "CNB lifecycle restorer, buildpack author callbacks (scripted)"}),
    );
    if let Some(fs) = &frame_faults {
        ev.cov(
            "frame_under_faults",
            json!({"deleting_requests_enumerated": fs.pairs, "faulted_executions": fs.executions, "faults_fired": fs.fired,
                   "by_libc_call": fs.fired_by_call, "by_errno": fs.fired_by_errno,
                   "rule": "for sampled hostile histories the last deleting request is re-executed with every k-th file-system call failing (x EIO, EACCES, ENOSPC; the C12 enumeration adds ENOTDIR); whatever it returns, everything outside the layer must be untouched"}),
        );
    }
    ev.cov("design_ref", json!(c.design_ref));
    ev.cov("known_findings_seen", json!(known_hits));
    ev.assumptions = c.assumptions.iter().map(|s| (*s).to_string()).collect();
    ev.wall_s = wall;
    ev.violations = reported;
    if let Err(e) = ev.write() {
        harness_fail(&format!("cannot write evidence: {e}"));
    }
    println!(
        "{property}: {} runs, {} steps, {} libcnb calls, {} transitions, {} distinct histories ({} non-trivial), {:.1}s",
        sum.runs,
        sum.steps,
        sum.libcnb_calls,
        sum.transitions.len(),
        sum.shapes_all.len(),
        sum.shapes_nontrivial.len(),
        wall
    );
    i32::from(reported > 0)
}

/// A worker died by a signal: find the first run of its range that kills a fresh process.
fn isolate_crash(f: &pool::WorkerFailure, property: &str) -> Option<Replay> {
    let get = |flag: &str| f.argv.iter().position(|a| a == flag).and_then(|i| f.argv.get(i + 1)).cloned();
    let class = super::generate::Class::parse(&get("--class")?)?;
    let from: u64 = get("--from")?.parse().ok()?;
    let to: u64 = get("--to")?.parse().ok()?;
    let tier = get("--tier").unwrap_or_else(|| "quick".into());
    let plan = super::plan_for(class, &tier);
    let mut i = from;
    while i < to {
        let batch: Vec<u64> = (i..to.min(i + 32)).collect();
        let argvs: Vec<Vec<String>> = batch
            .iter()
            .map(|k| {
                ["worker", "e1", "--class", &format!("{class:?}"), "--from", &k.to_string(), "--to", &(k + 1).to_string(), "--tier", &tier, "--props", property, "--id", &format!("iso{k}")]
                    .iter()
                    .map(|s| (*s).to_string())
                    .collect()
            })
            .collect();
        let res: Vec<Result<WorkerSummary, pool::WorkerFailure>> = pool::run_workers_detailed(argvs, true);
        for (k, r) in batch.iter().zip(res) {
            if let Err(fail) = r {
                if fail.signal.is_some() {
                    let seed = crate::rng::run_seed(crate::global_seed(), &format!("e1-{class:?}"), *k);
                    let (history, _) = super::generate::gen_history(seed, class, plan.max_steps);
                    return Some(Replay {
                        engine: "e1".into(),
                        property: property.into(),
                        class,
                        seed,
                        run_index: *k,
                        chaos: plan.chaos_every > 0 && k % plan.chaos_every == plan.chaos_every - 1,
                        rd_perm: true,
                        minimised_from_steps: history.ops.len(),
                        history,
                        violation: super::check::Violation {
                            properties: vec![property.into()],
                            invariant: "I-crash".into(),
                            step: 0,
                            op: String::new(),
                            detail: vec![format!(
                                "the process executing this history died with signal {:?} (the code under test crashed, e.g. unbounded recursion): {}",
                                fail.signal, fail.output
                            )],
                            signature: "I-crash".into(),
                        },
                        shim_ring: None,
                        hard_fault: None,
                    });
                }
            }
        }
        i += 32;
    }
    None
}

pub fn minimise_in_worker(v: &Replay) -> Replay {
    if v.violation.invariant == "I-crash" {
        // every candidate would have to be tried in its own process; keep the history as found
        return v.clone();
    }
    let dir = crate::scratch_root();
    let _ = std::fs::create_dir_all(&dir);
    let inp = dir.join(format!("min-in-{}.json", v.run_index));
    let text = serde_json::to_string(v).unwrap_or_default();
    if std::fs::write(&inp, text).is_err() {
        return v.clone();
    }
    let argv = vec!["worker".to_string(), "e1-min".to_string(), inp.display().to_string()];
    let out: Result<Vec<Replay>, _> = pool::run_workers(vec![argv], true);
    let _ = std::fs::remove_file(&inp);
    match out {
        Ok(mut r) if !r.is_empty() => r.remove(0),
        _ => v.clone(),
    }
}
