// LD_PRELOAD shim: the simulator's seam for file-system outcomes, directory order, hash keys.
//
// Passive unless armed. Armed either in-process (verif_shim_begin/_end, looked up with dlsym by
// the harness) or by the environment variable VERIF_SHIM_PLAN in the process whose
// program_invocation_short_name matches `prog=`.
//
// Counted ("matching") calls are those whose path, or whose fd as tracked from open*, lies
// beneath the configured prefix. Stat-family calls, close and fsync are never counted.
#define _GNU_SOURCE
#include <dirent.h>
#include <dlfcn.h>
#include <errno.h>
#include <fcntl.h>
#include <stdarg.h>
#include <stdint.h>
#include <stdio.h>
#include <stdlib.h>
#include <string.h>
#include <sys/sendfile.h>
#include <sys/random.h>
#include <sys/stat.h>
#include <sys/types.h>
#include <time.h>
#include <unistd.h>

enum { MODE_COUNT = 0, MODE_ERROR = 1, MODE_CRASH = 2 };

#define MAXFD 4096
#define PATHLEN 1024
#define RING 64

struct ring_entry {
    char name[20];
    char path[200];
    long result;
    int err;
    long index;
};

struct verif_stats {
    long matched;       // number of matching calls seen
    long fired;         // 1 if the planned fault fired
    char fired_call[20];
    long short_writes;  // chaos: shortened writes/reads
    long eintrs;        // chaos: EINTR injected
    long readdir_perms; // directories whose order was permuted
    long per_kind[32];  // matching calls per call kind (see kind_names)
};

static const char *kind_names[] = {"open",   "write",  "read",   "mkdir",  "unlink", "rmdir",
                                   "rename", "chmod",  "symlink", "link",  "copy_file_range",
                                   "sendfile", "readdir", "ftruncate", "fchmod", "pwrite", "opendir", 0};
enum { K_OPEN, K_WRITE, K_READ, K_MKDIR, K_UNLINK, K_RMDIR, K_RENAME, K_CHMOD, K_SYMLINK, K_LINK,
       K_CFR, K_SENDFILE, K_READDIR, K_FTRUNC, K_FCHMOD, K_PWRITE, K_OPENDIR };

static int g_active = 0;
static char g_prefix[PATHLEN];
static size_t g_prefix_len = 0;
static long g_fail_at = -1; // 1-based index of the matching call to fault; <=0: none
static int g_errno = EIO;
static int g_mode = MODE_COUNT;
static uint64_t g_rdseed = 0;     // 0: keep the kernel's order
static uint64_t g_chaos_seed = 0; // 0: no chaos
static unsigned g_chaos_rate = 0; // 1-in-rate
static long g_count = 0;
static struct verif_stats g_stats;
static struct ring_entry g_ring[RING];
static long g_ring_n = 0;
static char g_stats_file[PATHLEN];
static int g_random_on = 0;
static uint64_t g_random_state = 0;
static long g_clock_off = 0;

// fd table
static unsigned char fd_tracked[MAXFD];
static char fd_path[MAXFD][PATHLEN / 2];

static uint64_t splitmix(uint64_t *s) {
    uint64_t z = (*s += 0x9E3779B97F4A7C15ULL);
    z = (z ^ (z >> 30)) * 0xBF58476D1CE4E5B9ULL;
    z = (z ^ (z >> 27)) * 0x94D049BB133111EBULL;
    return z ^ (z >> 31);
}

#define REAL(name) \
    static __typeof__(&name) real_##name = 0; \
    if (!real_##name) real_##name = (__typeof__(&name))dlsym(RTLD_NEXT, #name)

// ---------------------------------------------------------------- path handling

// Lexically normalise an absolute path (collapse //, /./, /../).
static void normalise(char *p) {
    char out[PATHLEN];
    size_t o = 0;
    size_t i = 0;
    size_t n = strlen(p);
    while (i < n) {
        while (i < n && p[i] == '/') i++;
        size_t s = i;
        while (i < n && p[i] != '/') i++;
        size_t len = i - s;
        if (len == 0) break;
        if (len == 1 && p[s] == '.') continue;
        if (len == 2 && p[s] == '.' && p[s + 1] == '.') {
            while (o > 0 && out[o - 1] != '/') o--;
            if (o > 0) o--;
            continue;
        }
        if (o + len + 2 >= PATHLEN) break;
        out[o++] = '/';
        memcpy(out + o, p + s, len);
        o += len;
    }
    if (o == 0) out[o++] = '/';
    out[o] = 0;
    strcpy(p, out);
}

// Resolve (dirfd, path) to an absolute lexical path; returns 0 if impossible.
static int absolutise(int dirfd, const char *path, char *out) {
    if (!path) return 0;
    if (path[0] == '/') {
        if (strlen(path) >= PATHLEN) return 0;
        strcpy(out, path);
    } else if (dirfd == AT_FDCWD) {
        if (!getcwd(out, PATHLEN / 2)) return 0;
        if (strlen(out) + strlen(path) + 2 >= PATHLEN) return 0;
        strcat(out, "/");
        strcat(out, path);
    } else if (dirfd >= 0 && dirfd < MAXFD && fd_path[dirfd][0]) {
        if (strlen(fd_path[dirfd]) + strlen(path) + 2 >= PATHLEN) return 0;
        strcpy(out, fd_path[dirfd]);
        strcat(out, "/");
        strcat(out, path);
    } else {
        return 0;
    }
    normalise(out);
    return 1;
}

static int beneath(const char *abs) {
    if (!g_active || g_prefix_len == 0) return 0;
    if (strncmp(abs, g_prefix, g_prefix_len) != 0) return 0;
    return abs[g_prefix_len] == 0 || abs[g_prefix_len] == '/';
}

static int path_matches(int dirfd, const char *path, char *absout) {
    if (!g_active) return 0;
    char abs[PATHLEN];
    if (!absolutise(dirfd, path, abs)) return 0;
    if (absout) strcpy(absout, abs);
    return beneath(abs);
}

static void track_fd(int fd, const char *abs) {
    if (fd < 0 || fd >= MAXFD) return;
    fd_tracked[fd] = 1;
    strncpy(fd_path[fd], abs, sizeof(fd_path[fd]) - 1);
    fd_path[fd][sizeof(fd_path[fd]) - 1] = 0;
}

static void untrack_fd(int fd) {
    if (fd < 0 || fd >= MAXFD) return;
    fd_tracked[fd] = 0;
    fd_path[fd][0] = 0;
}

static int fd_matches(int fd) { return g_active && fd >= 0 && fd < MAXFD && fd_tracked[fd]; }

// ---------------------------------------------------------------- fault decision

static void ring_log(const char *name, const char *path, long result, int err) {
    struct ring_entry *e = &g_ring[g_ring_n % RING];
    strncpy(e->name, name, sizeof(e->name) - 1);
    e->name[sizeof(e->name) - 1] = 0;
    strncpy(e->path, path ? path : "", sizeof(e->path) - 1);
    e->path[sizeof(e->path) - 1] = 0;
    e->result = result;
    e->err = err;
    e->index = g_count;
    g_ring_n++;
}

static void write_stats_file(void);

// Called for every matching call *before* it is performed. Returns 1 when the call must fail
// with errno set (the call is then not performed).
static int decide(int kind, const char *name, const char *path) {
    long idx = __atomic_add_fetch(&g_count, 1, __ATOMIC_SEQ_CST);
    g_stats.matched = idx;
    g_stats.per_kind[kind]++;
    if (g_fail_at > 0 && idx == g_fail_at) {
        g_stats.fired = 1;
        strncpy(g_stats.fired_call, name, sizeof(g_stats.fired_call) - 1);
        if (g_mode == MODE_CRASH) {
            ring_log(name, path, -2, 0);
            write_stats_file();
            _exit(137);
        }
        if (g_mode == MODE_ERROR) {
            ring_log(name, path, -1, g_errno);
            errno = g_errno;
            return 1;
        }
    }
    return 0;
}

// chaos: legal-but-rare outcomes of read/write/open. 0 = normal, 1 = short, 2 = EINTR
static int chaos(void) {
    if (!g_chaos_rate) return 0;
    uint64_t r = splitmix(&g_chaos_seed);
    if (r % g_chaos_rate != 0) return 0;
    return ((r >> 32) & 1) ? 1 : 2;
}

// ---------------------------------------------------------------- control API

void verif_shim_begin(const char *prefix, long fail_at, int err, int mode, uint64_t rdseed,
                      uint64_t chaos_seed, unsigned chaos_rate) {
    strncpy(g_prefix, prefix, PATHLEN - 1);
    g_prefix[PATHLEN - 1] = 0;
    normalise(g_prefix);
    g_prefix_len = strlen(g_prefix);
    g_fail_at = fail_at;
    g_errno = err;
    g_mode = mode;
    g_rdseed = rdseed;
    g_chaos_seed = chaos_seed;
    g_chaos_rate = chaos_rate;
    g_count = 0;
    g_ring_n = 0;
    memset(&g_stats, 0, sizeof(g_stats));
    g_active = 1;
}

void verif_shim_end(struct verif_stats *out) {
    g_active = 0;
    if (out) *out = g_stats;
}

// Copies up to `max` most recent ring entries as text lines into buf.
long verif_shim_ring(char *buf, long buflen) {
    long n = g_ring_n < RING ? g_ring_n : RING;
    long start = g_ring_n - n;
    long o = 0;
    for (long i = 0; i < n; i++) {
        struct ring_entry *e = &g_ring[(start + i) % RING];
        int w = snprintf(buf + o, buflen - o, "#%ld %s %s -> %ld errno=%d\n", e->index, e->name,
                         e->path, e->result, e->err);
        if (w < 0 || w >= buflen - o) break;
        o += w;
    }
    return o;
}

void verif_shim_set_random(uint64_t seed, int on) {
    g_random_on = on;
    g_random_state = seed;
}

const char *verif_shim_kind_name(int k) { return (k >= 0 && k < 17) ? kind_names[k] : 0; }

int verif_shim_present(void) { return 1; }

static void write_stats_file(void) {
    if (!g_stats_file[0]) return;
    REAL(open);
    REAL(write);
    REAL(close);
    int saved = g_active;
    g_active = 0;
    int fd = real_open(g_stats_file, O_WRONLY | O_CREAT | O_TRUNC, 0644);
    if (fd >= 0) {
        char buf[2048];
        int n = snprintf(buf, sizeof buf, "matched=%ld\nfired=%ld\nfired_call=%s\nreaddir_perms=%ld\n",
                         g_stats.matched, g_stats.fired, g_stats.fired_call, g_stats.readdir_perms);
        for (int k = 0; kind_names[k]; k++)
            n += snprintf(buf + n, sizeof buf - n, "kind.%s=%ld\n", kind_names[k], g_stats.per_kind[k]);
        ssize_t w = real_write(fd, buf, n);
        (void)w;
        long rn = verif_shim_ring(buf, sizeof buf);
        w = real_write(fd, buf, rn);
        (void)w;
        real_close(fd);
    }
    g_active = saved;
}

extern char *program_invocation_short_name;

// VERIF_SHIM_PLAN=prog=<name>;prefix=<p>;k=<n>;errno=<n>;mode=error|crash|count;rdseed=<n>;
//                 hashkey=<n>;stats=<file>;clockoff=<n>
__attribute__((constructor)) static void shim_init(void) {
    const char *plan = getenv("VERIF_SHIM_PLAN");
    if (!plan) return;
    char buf[4 * PATHLEN];
    strncpy(buf, plan, sizeof buf - 1);
    buf[sizeof buf - 1] = 0;
    char prog[256] = "";
    char prefix[PATHLEN] = "";
    long k = -1;
    int err = EIO, mode = MODE_COUNT;
    uint64_t rdseed = 0, hashkey = 0;
    int have_hash = 0;
    char *save = 0;
    for (char *tok = strtok_r(buf, ";", &save); tok; tok = strtok_r(0, ";", &save)) {
        char *eq = strchr(tok, '=');
        if (!eq) continue;
        *eq = 0;
        const char *v = eq + 1;
        if (!strcmp(tok, "prog")) strncpy(prog, v, sizeof prog - 1);
        else if (!strcmp(tok, "prefix")) strncpy(prefix, v, sizeof prefix - 1);
        else if (!strcmp(tok, "k")) k = atol(v);
        else if (!strcmp(tok, "errno")) err = atoi(v);
        else if (!strcmp(tok, "mode")) mode = !strcmp(v, "error") ? MODE_ERROR : !strcmp(v, "crash") ? MODE_CRASH : MODE_COUNT;
        else if (!strcmp(tok, "rdseed")) rdseed = strtoull(v, 0, 10);
        else if (!strcmp(tok, "hashkey")) { hashkey = strtoull(v, 0, 10); have_hash = 1; }
        else if (!strcmp(tok, "stats")) strncpy(g_stats_file, v, sizeof g_stats_file - 1);
        else if (!strcmp(tok, "clockoff")) g_clock_off = atol(v);
    }
    if (prog[0] && strcmp(prog, program_invocation_short_name) != 0) {
        g_stats_file[0] = 0;
        g_clock_off = 0;
        return;
    }
    if (have_hash) verif_shim_set_random(hashkey, 1);
    if (prefix[0]) verif_shim_begin(prefix, k, err, mode, rdseed, 0, 0);
}

__attribute__((destructor)) static void shim_fini(void) { write_stats_file(); }

// ---------------------------------------------------------------- wrappers: open family

static int open_common(int dirfd, const char *path, int flags, mode_t mode, int which) {
    REAL(open);
    REAL(open64);
    REAL(openat);
    REAL(openat64);
    char abs[PATHLEN];
    int m = path_matches(dirfd, path, abs);
    if (m) {
        if (decide(K_OPEN, "open", abs)) return -1;
        if (chaos() == 2) {
            g_stats.eintrs++;
            ring_log("open", abs, -1, EINTR);
            errno = EINTR;
            return -1;
        }
    }
    int fd;
    switch (which) {
    case 0: fd = real_open(path, flags, mode); break;
    case 1: fd = real_open64(path, flags, mode); break;
    case 2: fd = real_openat(dirfd, path, flags, mode); break;
    default: fd = real_openat64(dirfd, path, flags, mode); break;
    }
    int e = errno;
    if (m) {
        ring_log("open", abs, fd, fd < 0 ? e : 0);
        if (fd >= 0) track_fd(fd, abs);
    } else if (fd >= 0) {
        untrack_fd(fd);
    }
    errno = e;
    return fd;
}

static mode_t get_mode(int flags, va_list ap) {
    if ((flags & O_CREAT) || (flags & O_TMPFILE) == O_TMPFILE) return (mode_t)va_arg(ap, int);
    return 0;
}

int open(const char *path, int flags, ...) {
    va_list ap; va_start(ap, flags); mode_t mode = get_mode(flags, ap); va_end(ap);
    return open_common(AT_FDCWD, path, flags, mode, 0);
}
int open64(const char *path, int flags, ...) {
    va_list ap; va_start(ap, flags); mode_t mode = get_mode(flags, ap); va_end(ap);
    return open_common(AT_FDCWD, path, flags, mode, 1);
}
int openat(int dirfd, const char *path, int flags, ...) {
    va_list ap; va_start(ap, flags); mode_t mode = get_mode(flags, ap); va_end(ap);
    return open_common(dirfd, path, flags, mode, 2);
}
int openat64(int dirfd, const char *path, int flags, ...) {
    va_list ap; va_start(ap, flags); mode_t mode = get_mode(flags, ap); va_end(ap);
    return open_common(dirfd, path, flags, mode, 3);
}
int creat(const char *path, mode_t mode) {
    return open_common(AT_FDCWD, path, O_CREAT | O_WRONLY | O_TRUNC, mode, 0);
}

int close(int fd) {
    REAL(close);
    untrack_fd(fd);
    return real_close(fd);
}

// ---------------------------------------------------------------- read / write

ssize_t write(int fd, const void *buf, size_t n) {
    REAL(write);
    if (fd_matches(fd)) {
        if (decide(K_WRITE, "write", fd_path[fd])) return -1;
        int c = chaos();
        if (c == 2) {
            g_stats.eintrs++;
            ring_log("write", fd_path[fd], -1, EINTR);
            errno = EINTR;
            return -1;
        }
        if (c == 1 && n > 1) {
            g_stats.short_writes++;
            n = n / 2;
        }
        ssize_t r = real_write(fd, buf, n);
        int e = errno;
        ring_log("write", fd_path[fd], r, r < 0 ? e : 0);
        errno = e;
        return r;
    }
    return real_write(fd, buf, n);
}

ssize_t pwrite64(int fd, const void *buf, size_t n, off64_t off) {
    REAL(pwrite64);
    if (fd_matches(fd)) {
        if (decide(K_PWRITE, "pwrite", fd_path[fd])) return -1;
    }
    return real_pwrite64(fd, buf, n, off);
}

ssize_t read(int fd, void *buf, size_t n) {
    REAL(read);
    if (fd_matches(fd)) {
        if (decide(K_READ, "read", fd_path[fd])) return -1;
        int c = chaos();
        if (c == 2) {
            g_stats.eintrs++;
            ring_log("read", fd_path[fd], -1, EINTR);
            errno = EINTR;
            return -1;
        }
        if (c == 1 && n > 1) {
            g_stats.short_writes++;
            n = n / 2;
        }
        ssize_t r = real_read(fd, buf, n);
        int e = errno;
        ring_log("read", fd_path[fd], r, r < 0 ? e : 0);
        errno = e;
        return r;
    }
    return real_read(fd, buf, n);
}

int ftruncate64(int fd, off64_t len) {
    REAL(ftruncate64);
    if (fd_matches(fd) && decide(K_FTRUNC, "ftruncate", fd_path[fd])) return -1;
    return real_ftruncate64(fd, len);
}

ssize_t copy_file_range(int fd_in, off64_t *off_in, int fd_out, off64_t *off_out, size_t len,
                        unsigned int flags) {
    REAL(copy_file_range);
    if (fd_matches(fd_out) || fd_matches(fd_in)) {
        const char *p = fd_matches(fd_out) ? fd_path[fd_out] : fd_path[fd_in];
        if (decide(K_CFR, "copy_file_range", p)) return -1;
        ssize_t r = real_copy_file_range(fd_in, off_in, fd_out, off_out, len, flags);
        int e = errno;
        ring_log("copy_file_range", p, r, r < 0 ? e : 0);
        errno = e;
        return r;
    }
    return real_copy_file_range(fd_in, off_in, fd_out, off_out, len, flags);
}

ssize_t sendfile64(int out_fd, int in_fd, off64_t *offset, size_t count) {
    REAL(sendfile64);
    if (fd_matches(out_fd) || fd_matches(in_fd)) {
        const char *p = fd_matches(out_fd) ? fd_path[out_fd] : fd_path[in_fd];
        if (decide(K_SENDFILE, "sendfile", p)) return -1;
    }
    return real_sendfile64(out_fd, in_fd, offset, count);
}
ssize_t sendfile(int out_fd, int in_fd, off_t *offset, size_t count) {
    REAL(sendfile);
    if (fd_matches(out_fd) || fd_matches(in_fd)) {
        const char *p = fd_matches(out_fd) ? fd_path[out_fd] : fd_path[in_fd];
        if (decide(K_SENDFILE, "sendfile", p)) return -1;
    }
    return real_sendfile(out_fd, in_fd, offset, count);
}

// ---------------------------------------------------------------- path mutators

#define PATH_WRAPPER(kind, label, call_real)                 \
    char abs[PATHLEN];                                       \
    int m = path_matches(dfd, path, abs);                    \
    if (m && decide(kind, label, abs)) return -1;            \
    int r = call_real;                                       \
    if (m) { int e = errno; ring_log(label, abs, r, r < 0 ? e : 0); errno = e; } \
    return r;

int mkdir(const char *path, mode_t mode) {
    REAL(mkdir);
    int dfd = AT_FDCWD;
    PATH_WRAPPER(K_MKDIR, "mkdir", real_mkdir(path, mode))
}
int mkdirat(int dfd, const char *path, mode_t mode) {
    REAL(mkdirat);
    PATH_WRAPPER(K_MKDIR, "mkdir", real_mkdirat(dfd, path, mode))
}
int unlink(const char *path) {
    REAL(unlink);
    int dfd = AT_FDCWD;
    PATH_WRAPPER(K_UNLINK, "unlink", real_unlink(path))
}
int unlinkat(int dfd, const char *path, int flags) {
    REAL(unlinkat);
    if (flags & AT_REMOVEDIR) {
        PATH_WRAPPER(K_RMDIR, "rmdir", real_unlinkat(dfd, path, flags))
    } else {
        PATH_WRAPPER(K_UNLINK, "unlink", real_unlinkat(dfd, path, flags))
    }
}
int rmdir(const char *path) {
    REAL(rmdir);
    int dfd = AT_FDCWD;
    PATH_WRAPPER(K_RMDIR, "rmdir", real_rmdir(path))
}
int chmod(const char *path, mode_t mode) {
    REAL(chmod);
    int dfd = AT_FDCWD;
    PATH_WRAPPER(K_CHMOD, "chmod", real_chmod(path, mode))
}
int fchmodat(int dfd, const char *path, mode_t mode, int flags) {
    REAL(fchmodat);
    PATH_WRAPPER(K_CHMOD, "chmod", real_fchmodat(dfd, path, mode, flags))
}
int fchmod(int fd, mode_t mode) {
    REAL(fchmod);
    if (fd_matches(fd)) {
        if (decide(K_FCHMOD, "fchmod", fd_path[fd])) return -1;
    }
    return real_fchmod(fd, mode);
}
int symlink(const char *target, const char *path) {
    REAL(symlink);
    int dfd = AT_FDCWD;
    PATH_WRAPPER(K_SYMLINK, "symlink", real_symlink(target, path))
}
int symlinkat(const char *target, int dfd, const char *path) {
    REAL(symlinkat);
    PATH_WRAPPER(K_SYMLINK, "symlink", real_symlinkat(target, dfd, path))
}
int link(const char *old, const char *path) {
    REAL(link);
    int dfd = AT_FDCWD;
    PATH_WRAPPER(K_LINK, "link", real_link(old, path))
}
int linkat(int odfd, const char *old, int dfd, const char *path, int flags) {
    REAL(linkat);
    PATH_WRAPPER(K_LINK, "link", real_linkat(odfd, old, dfd, path, flags))
}
int rename(const char *old, const char *path) {
    REAL(rename);
    int dfd = AT_FDCWD;
    char abs2[PATHLEN];
    if (!path_matches(AT_FDCWD, path, 0) && path_matches(AT_FDCWD, old, abs2)) {
        if (decide(K_RENAME, "rename", abs2)) return -1;
        return real_rename(old, path);
    }
    PATH_WRAPPER(K_RENAME, "rename", real_rename(old, path))
}
int renameat(int odfd, const char *old, int dfd, const char *path) {
    REAL(renameat);
    PATH_WRAPPER(K_RENAME, "rename", real_renameat(odfd, old, dfd, path))
}
int renameat2(int odfd, const char *old, int dfd, const char *path, unsigned int flags) {
    REAL(renameat2);
    PATH_WRAPPER(K_RENAME, "rename", real_renameat2(odfd, old, dfd, path, flags))
}

// ---------------------------------------------------------------- directories

struct dirbuf {
    DIR *dir;
    struct dirent64 *entries;
    long n;
    long pos;
    int loaded;
    int failed_errno;
    char path[PATHLEN / 2];
    struct dirbuf *next;
};
static struct dirbuf *g_dirs = 0;

static struct dirbuf *find_dir(DIR *d) {
    for (struct dirbuf *b = g_dirs; b; b = b->next)
        if (b->dir == d) return b;
    return 0;
}

static void register_dir(DIR *d, const char *abs) {
    struct dirbuf *b = calloc(1, sizeof *b);
    if (!b) return;
    b->dir = d;
    strncpy(b->path, abs, sizeof(b->path) - 1);
    b->next = g_dirs;
    g_dirs = b;
}

DIR *opendir(const char *path) {
    REAL(opendir);
    char abs[PATHLEN];
    if (path_matches(AT_FDCWD, path, abs) && decide(K_OPENDIR, "opendir", abs)) return 0;
    DIR *d = real_opendir(path);
    if (d && path_matches(AT_FDCWD, path, abs)) {
        int e = errno;
        register_dir(d, abs);
        int fd = dirfd(d);
        track_fd(fd, abs);
        errno = e;
    }
    return d;
}

DIR *fdopendir(int fd) {
    REAL(fdopendir);
    if (fd_matches(fd) && decide(K_OPENDIR, "opendir", fd_path[fd])) return 0;
    DIR *d = real_fdopendir(fd);
    if (d && fd_matches(fd)) {
        int e = errno;
        register_dir(d, fd_path[fd]);
        errno = e;
    }
    return d;
}

int closedir(DIR *d) {
    REAL(closedir);
    struct dirbuf **pp = &g_dirs;
    while (*pp) {
        if ((*pp)->dir == d) {
            struct dirbuf *b = *pp;
            *pp = b->next;
            free(b->entries);
            free(b);
            break;
        }
        pp = &(*pp)->next;
    }
    int fd = dirfd(d);
    untrack_fd(fd);
    return real_closedir(d);
}

static int cmp_dirent(const void *a, const void *b) {
    return strcmp(((const struct dirent64 *)a)->d_name, ((const struct dirent64 *)b)->d_name);
}

static void load_dir(struct dirbuf *b) {
    REAL(readdir64);
    long cap = 64;
    b->entries = malloc(cap * sizeof(struct dirent64));
    b->n = 0;
    b->loaded = 1;
    if (!b->entries) return;
    for (;;) {
        errno = 0;
        struct dirent64 *e = real_readdir64(b->dir);
        if (!e) {
            b->failed_errno = errno;
            break;
        }
        if (b->n == cap) {
            cap *= 2;
            struct dirent64 *ne = realloc(b->entries, cap * sizeof(struct dirent64));
            if (!ne) break;
            b->entries = ne;
        }
        b->entries[b->n++] = *e;
    }
    // "." and ".." first (std skips them anyway), the rest sorted then permuted by the seed.
    qsort(b->entries, b->n, sizeof(struct dirent64), cmp_dirent);
    uint64_t s = g_rdseed;
    for (long i = 0; i < b->n; i++)
        for (const char *c = b->entries[i].d_name; *c; c++) s = s * 1099511628211ULL + (unsigned char)*c;
    for (long i = b->n - 1; i > 0; i--) {
        long j = (long)(splitmix(&s) % (uint64_t)(i + 1));
        struct dirent64 t = b->entries[i];
        b->entries[i] = b->entries[j];
        b->entries[j] = t;
    }
    g_stats.readdir_perms++;
}

struct dirent64 *readdir64(DIR *d) {
    REAL(readdir64);
    struct dirbuf *b = g_active ? find_dir(d) : 0;
    if (!b) return real_readdir64(d);
    if (decide(K_READDIR, "readdir", b->path)) return 0;
    if (!g_rdseed) return real_readdir64(d);
    if (!b->loaded) load_dir(b);
    if (b->pos < b->n) return &b->entries[b->pos++];
    if (b->failed_errno) errno = b->failed_errno;
    return 0;
}

struct dirent *readdir(DIR *d) { return (struct dirent *)readdir64(d); }

// ---------------------------------------------------------------- randomness and clock

ssize_t getrandom(void *buf, size_t len, unsigned int flags) {
    REAL(getrandom);
    if (g_random_on) {
        unsigned char *p = buf;
        size_t i = 0;
        while (i < len) {
            uint64_t r = splitmix(&g_random_state);
            for (int b = 0; b < 8 && i < len; b++, i++) p[i] = (unsigned char)(r >> (8 * b));
        }
        return (ssize_t)len;
    }
    return real_getrandom(buf, len, flags);
}

int clock_gettime(clockid_t clk, struct timespec *ts) {
    REAL(clock_gettime);
    int r = real_clock_gettime(clk, ts);
    if (r == 0 && g_clock_off && clk == CLOCK_REALTIME) ts->tv_sec += g_clock_off;
    return r;
}
